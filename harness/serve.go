package main

import (
	"bufio"
	"encoding/json"
	"flag"
	"fmt"
	"io"
	"os"
	"os/exec"
	"strings"
	"sync"
	"syscall"
	"time"

	"github.com/jimsnab/go-lane"
	redisemu "github.com/jimsnab/go-redisemu"
)

// serveMain hosts one emulator instance; it is always run as a child process so that a panic
// or a deadlock of the server is an observation of the checker, not its death.
func serveMain(args []string) {
	fs := flag.NewFlagSet("serve", flag.ExitOnError)
	port := fs.Int("port", 7379, "tcp port")
	persist := fs.String("persist", "", "persist base path")
	savestages := fs.String("savestages", "", "directory receiving a copy of the persist files at every stage of every snapshot write (verif hook)")
	memlimit := fs.Int("memlimit", 0, "address-space limit in MB (hostile-input runs: an absurd allocation must kill this child, not the machine)")
	treehook := fs.Bool("treehook", false, "install a dispatch hook (public SetHook API): ECHO <json reply tree> replies that tree")
	fs.Parse(args)
	if *memlimit > 0 {
		lim := uint64(*memlimit) << 20
		syscall.Setrlimit(syscall.RLIMIT_AS, &syscall.Rlimit{Cur: lim, Max: lim})
	}
	l := lane.NewNullLane(nil)
	emu, err := redisemu.NewEmulator(l, *port, "127.0.0.1", *persist, nil)
	if err != nil {
		fmt.Println("ERROR", err)
		os.Exit(3)
	}
	setSaveStages(*savestages, *persist)
	installServeHooks()
	if *treehook {
		emu.SetHook(func(cmd string, args map[string]any) (bool, any, error) {
			if cmd != "echo" {
				return false, nil, nil
			}
			msg, _ := args["message"].(string)
			var t any
			if err := json.Unmarshal([]byte(msg), &t); err != nil {
				return false, nil, nil
			}
			return true, treeToNative(t), nil
		})
	}
	emu.Start()
	fmt.Println("READY")
	// exit when the parent closes our stdin (or sends "close": clean shutdown, used by persistence checks)
	rd := bufio.NewReader(os.Stdin)
	for {
		line, err := rd.ReadString('\n')
		line = strings.TrimSpace(line)
		switch {
		case line == "close":
			emu.Close()
			fmt.Println("CLOSED")
			os.Exit(0)
		case line != "":
			controlLine(line)
		}
		if err != nil {
			os.Exit(0)
		}
	}
}

type Child struct {
	Port   int
	cmd    *exec.Cmd
	stdin  io.WriteCloser
	mu     sync.Mutex
	stderr []byte
	done   chan struct{}
	out    chan string
}

var selfExe string

func StartChild(port int, extra ...string) (*Child, error) {
	if selfExe == "" {
		selfExe, _ = os.Executable()
	}
	args := append([]string{"serve", "-port", fmt.Sprint(port)}, extra...)
	cmd := exec.Command(selfExe, args...)
	cmd.SysProcAttr = &syscall.SysProcAttr{Pdeathsig: syscall.SIGKILL}
	stdin, _ := cmd.StdinPipe()
	stdout, _ := cmd.StdoutPipe()
	stderr, _ := cmd.StderrPipe()
	if err := cmd.Start(); err != nil {
		return nil, err
	}
	ch := &Child{Port: port, cmd: cmd, stdin: stdin, done: make(chan struct{}), out: make(chan string, 512)}
	go func() {
		buf := make([]byte, 4096)
		for {
			n, err := stderr.Read(buf)
			if n > 0 {
				ch.mu.Lock()
				ch.stderr = append(ch.stderr, buf[:n]...)
				if len(ch.stderr) > 1<<16 {
					ch.stderr = ch.stderr[len(ch.stderr)-(1<<16):]
				}
				ch.mu.Unlock()
			}
			if err != nil {
				return
			}
		}
	}()
	ready := make(chan bool, 1)
	go func() {
		buf := make([]byte, 4096)
		acc := ""
		signalled := false
		for {
			n, err := stdout.Read(buf)
			if n > 0 {
				acc += string(buf[:n])
				for {
					i := indexByte(acc, '\n')
					if i < 0 {
						break
					}
					line := acc[:i]
					acc = acc[i+1:]
					if line == "READY" && !signalled {
						signalled = true
						ready <- true
					} else {
						select {
						case ch.out <- line:
						default:
						}
					}
				}
			}
			if err != nil {
				if !signalled {
					ready <- false
				}
				return
			}
		}
	}()
	go func() { cmd.Wait(); close(ch.done) }()
	select {
	case ok := <-ready:
		if !ok {
			ch.Kill()
			return nil, fmt.Errorf("child on port %d died before READY: %s", port, ch.Stderr())
		}
	case <-time.After(10 * time.Second):
		ch.Kill()
		return nil, fmt.Errorf("child on port %d not ready in 10s", port)
	}
	return ch, nil
}

func indexByte(s string, b byte) int {
	for i := 0; i < len(s); i++ {
		if s[i] == b {
			return i
		}
	}
	return -1
}

func (c *Child) Alive() bool {
	select {
	case <-c.done:
		return false
	default:
		return true
	}
}

func (c *Child) Stderr() string {
	c.mu.Lock()
	defer c.mu.Unlock()
	s := string(c.stderr)
	if len(s) > 1500 {
		s = s[:700] + "\n...\n" + s[len(s)-700:]
	}
	return s
}

func (c *Child) Kill() {
	if c.cmd.Process != nil {
		c.cmd.Process.Signal(syscall.SIGKILL)
	}
	<-c.done
}

// CloseClean asks the emulator for RequestTermination+WaitForTermination and waits for the child to exit.
func (c *Child) CloseClean(timeout time.Duration) bool {
	io.WriteString(c.stdin, "close\n")
	select {
	case <-c.done:
		return true
	case <-time.After(timeout):
		c.Kill()
		return false
	}
}
