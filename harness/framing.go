package main

import (
	"bufio"
	"bytes"
	"encoding/json"
	"flag"
	"fmt"
	"io"
	"net"
	"os"
	"sync"
	"time"
)

// E4 (C01): the same command stream is sent once command by command (reference) and once cut into the
// chunks TLC chose; the raw reply byte streams must be identical, every reference reply must be exactly
// one well-formed RESP value allowed by the specification, and a PING sentinel must be answered +PONG next.

type rawConn struct {
	c   net.Conn
	buf []byte
}

func dialRaw(port int) (*rawConn, error) {
	c, err := net.DialTimeout("tcp", fmt.Sprintf("127.0.0.1:%d", port), 2*time.Second)
	if err != nil {
		return nil, err
	}
	if tc, ok := c.(*net.TCPConn); ok {
		tc.SetNoDelay(true)
	}
	return &rawConn{c: c}, nil
}

// readValue reads exactly one RESP value and returns it parsed together with its raw bytes.
func (rc *rawConn) readValue(timeout time.Duration) (*Reply, []byte, error) {
	deadline := time.Now().Add(timeout)
	tmp := make([]byte, 65536)
	for {
		if len(rc.buf) > 0 {
			br := bytes.NewReader(rc.buf)
			rd := bufio.NewReaderSize(br, 16)
			rep, err := readReply(rd, 0)
			if err == nil {
				used := len(rc.buf) - br.Len() - rd.Buffered()
				raw := append([]byte{}, rc.buf[:used]...)
				rc.buf = rc.buf[used:]
				return rep, raw, nil
			}
			if err != io.EOF && err != io.ErrUnexpectedEOF {
				return nil, append([]byte{}, rc.buf...), err
			}
		}
		rc.c.SetReadDeadline(deadline)
		n, err := rc.c.Read(tmp)
		if n > 0 {
			rc.buf = append(rc.buf, tmp[:n]...)
		}
		if err != nil {
			return nil, append([]byte{}, rc.buf...), err
		}
	}
}

// readN reads exactly n bytes (or whatever arrives before the timeout).
func (rc *rawConn) readN(n int, timeout time.Duration) ([]byte, error) {
	deadline := time.Now().Add(timeout)
	tmp := make([]byte, 65536)
	for len(rc.buf) < n {
		rc.c.SetReadDeadline(deadline)
		k, err := rc.c.Read(tmp)
		if k > 0 {
			rc.buf = append(rc.buf, tmp[:k]...)
		}
		if err != nil {
			out := rc.buf
			rc.buf = nil
			return out, err
		}
	}
	out := append([]byte{}, rc.buf[:n]...)
	rc.buf = rc.buf[n:]
	return out, nil
}

func (w *worker) flush() error {
	ctl, err := Dial(w.port, w.timeout)
	if err != nil {
		return err
	}
	defer ctl.Close()
	if r, err := ctl.DoS("FLUSHALL"); err != nil || r.Kind != '+' {
		return fmt.Errorf("FLUSHALL: %v %v", r, err)
	}
	return nil
}

func (w *worker) runFraming(cs J) J {
	id := jInt(cs["id"])
	res := J{"id": id, "status": "ok"}
	bad := func(status, detail string) J {
		if w.child != nil && !w.child.Alive() {
			status = "crash"
			res["stderr"] = w.child.Stderr()
			w.restart()
		}
		res["status"] = status
		res["detail"] = detail
		return res
	}
	if err := w.ensureChild(); err != nil {
		return bad("error", err.Error())
	}
	var cmds [][][]byte
	if big, ok := cs["bigcmds"]; ok {
		// commands with run-length encoded arguments: [[byte, count], ...]
		for _, c := range jList(big) {
			var cmd [][]byte
			for _, a := range jList(c) {
				var arg []byte
				for _, run := range jList(a) {
					r := jList(run)
					arg = append(arg, bytes.Repeat([]byte{byte(jInt(r[0]))}, int(jInt(r[1])))...)
				}
				cmd = append(cmd, arg)
			}
			cmds = append(cmds, cmd)
		}
	} else {
		for _, c := range jList(cs["cmds"]) {
			cmds = append(cmds, jCmd(c))
		}
	}
	ctx := &MatchCtx{T0: time.Now().UnixMilli()}
	// (1) reference: one command at a time
	if err := w.flush(); err != nil {
		w.restart()
		return bad("error", "reset: "+err.Error())
	}
	ref, err := dialRaw(w.port)
	if err != nil {
		return bad("error", err.Error())
	}
	var want []byte
	replies := jList(cs["replies"])
	misframedExpected := false
	for i, cmd := range cmds {
		ref.c.SetWriteDeadline(time.Now().Add(2 * time.Second))
		if _, err := ref.c.Write(EncodeCmd(cmd)); err != nil {
			ref.c.Close()
			return bad("noreply", "reference write: "+err.Error())
		}
		rep, raw, err := ref.readValue(2 * time.Second)
		if i < len(replies) && jStr(replies[i].(J)["t"]) == "misframed" {
			// known class: the reply quotes client bytes that break RESP framing; whatever arrives is not compared
			misframedExpected = true
			res["misframed_reply"] = string(raw)
			break
		}
		if err != nil {
			ref.c.Close()
			return bad("viol", fmt.Sprintf("command %d (%s): no complete well-formed reply: %v; bytes so far %q", i+1, cmdString(cmd), err, raw))
		}
		if i < len(replies) && !matchReply(replies[i].(J), rep, ctx) {
			ref.c.Close()
			return bad("viol", fmt.Sprintf("command %d (%s): expected %s, observed %s", i+1, cmdString(cmd), expValString(replies[i].(J)), rep))
		}
		want = append(want, raw...)
	}
	if misframedExpected {
		ref.c.Close()
		res["status"] = "misframed"
		return res
	}
	// nothing more may arrive, and the stream must still be in sync
	ref.c.Write(EncodeCmd([][]byte{[]byte("PING")}))
	if rep, raw, err := ref.readValue(2 * time.Second); err != nil || string(raw) != "+PONG\r\n" {
		ref.c.Close()
		return bad("viol", fmt.Sprintf("reference run: sentinel PING answered %v %q %v (extra or missing reply bytes)", rep, raw, err))
	}
	ref.c.Close()
	// (2) the same stream in the chunks of the case
	if err := w.flush(); err != nil {
		w.restart()
		return bad("error", "reset: "+err.Error())
	}
	var stream []byte
	for _, cmd := range cmds {
		stream = append(stream, EncodeCmd(cmd)...)
	}
	ch, err := dialRaw(w.port)
	if err != nil {
		return bad("error", err.Error())
	}
	defer ch.c.Close()
	delay := time.Duration(jInt(cs["delay_us"])) * time.Microsecond
	pos := 0
	var sizes []int
	for _, n := range jList(cs["chunks"]) {
		sizes = append(sizes, int(jInt(n)))
	}
	for _, n := range sizes {
		if pos+n > len(stream) {
			n = len(stream) - pos
		}
		ch.c.SetWriteDeadline(time.Now().Add(2 * time.Second))
		if _, err := ch.c.Write(stream[pos : pos+n]); err != nil {
			return bad("noreply", "chunk write: "+err.Error())
		}
		pos += n
		if delay > 0 {
			time.Sleep(delay)
		}
	}
	if pos < len(stream) {
		ch.c.Write(stream[pos:])
	}
	got, err := ch.readN(len(want), 3*time.Second)
	if err != nil || !bytes.Equal(got, want) {
		return bad("viol", fmt.Sprintf("chunks %v: reply bytes differ from the unsplit run: expected %q, observed %q (%v)", sizes, want, got, err))
	}
	ch.c.Write(EncodeCmd([][]byte{[]byte("PING")}))
	if _, raw, err := ch.readValue(2 * time.Second); err != nil || string(raw) != "+PONG\r\n" {
		return bad("viol", fmt.Sprintf("chunks %v: sentinel PING answered %q %v", sizes, raw, err))
	}
	res["bytes"] = len(want)
	return res
}

func framingMain(args []string) {
	fs := flag.NewFlagSet("framing", flag.ExitOnError)
	in := fs.String("cases", "", "cases file (JSON lines)")
	out := fs.String("out", "", "results file (JSON lines)")
	nw := fs.Int("workers", 16, "parallel emulator children")
	basePort := fs.Int("port", 24000, "first tcp port")
	fs.Parse(args)
	f, err := os.Open(*in)
	if err != nil {
		fmt.Fprintln(os.Stderr, err)
		os.Exit(2)
	}
	defer f.Close()
	of, err := os.Create(*out)
	if err != nil {
		fmt.Fprintln(os.Stderr, err)
		os.Exit(2)
	}
	defer of.Close()
	ow := bufio.NewWriter(of)
	defer ow.Flush()
	var omu sync.Mutex
	jobs := make(chan J, 256)
	var wg sync.WaitGroup
	for i := 0; i < *nw; i++ {
		wg.Add(1)
		go func(i int) {
			defer wg.Done()
			w := &worker{port: *basePort + i, timeout: 2 * time.Second}
			defer w.restart()
			for cs := range jobs {
				r := w.runFraming(cs)
				// (an "error" is a hiccup of the infrastructure - a child that did not come up, a port still in use: the
				// case is run again; if it persists it stays an error and the check is inconclusive)
				for try := 0; try < 2 && r["status"] == "error"; try++ {
					time.Sleep(100 * time.Millisecond)
					r = w.runFraming(cs)
				}
				b, _ := json.Marshal(r)
				omu.Lock()
				ow.Write(b)
				ow.WriteByte('\n')
				omu.Unlock()
			}
		}(i)
	}
	sc := bufio.NewScanner(f)
	sc.Buffer(make([]byte, 1<<20), 1<<26)
	for sc.Scan() {
		var cs J
		if err := json.Unmarshal(sc.Bytes(), &cs); err != nil {
			fmt.Fprintln(os.Stderr, "bad case line:", err)
			os.Exit(2)
		}
		jobs <- cs
	}
	close(jobs)
	wg.Wait()
}

func init() { engines["framing"] = framingMain }
