//go:build verif

package main

// gatePoint is filled in by the block/wake scheduler (C11/C12); without gates it returns at once.
func gatePoint(point string, id int64) { gateWait(point, id) }
