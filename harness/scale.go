package main

import (
	"bytes"
	"fmt"
	"strconv"
	"strings"
)

// Scaled histories (C08, "big values").  The specification evaluates commands on byte strings of a few
// bytes; a reader that scans a value outside the lock only overlaps a writer's copy when the value is
// hundreds of kilobytes long.  The two meet through a homomorphism: on string values that consist of
// uniform blocks of B bytes, and for block-aligned, in-range arguments, the emulator with values of
// n*B bytes behaves exactly like the specification with values of n bytes - lengths, offsets and bit
// counts scale by B, contents by repeating every byte B times.  The engine sends the scaled command,
// records the un-scaled command and the un-scaled reply; a reply that has no un-scaled counterpart (a
// length that is not a multiple of B, a block that is not uniform) cannot come from any state the
// scaled programs can reach atomically and is recorded as {"t":"torn"}, which no specification reply
// matches - the history is then rejected by Trace_Lin like any other unexplainable reply.

func expandBytes(b []byte, B int) []byte {
	out := make([]byte, 0, len(b)*B)
	for _, x := range b {
		out = append(out, bytes.Repeat([]byte{x}, B)...)
	}
	return out
}

func compressBytes(b []byte, B int) ([]byte, bool) {
	if len(b)%B != 0 {
		return nil, false
	}
	out := make([]byte, 0, len(b)/B)
	for i := 0; i < len(b); i += B {
		x := b[i]
		for _, y := range b[i : i+B] {
			if y != x {
				return nil, false
			}
		}
		out = append(out, x)
	}
	return out, true
}

func scaleInt(a []byte, mul, add int) []byte {
	n, err := strconv.Atoi(string(a))
	if err != nil {
		return a
	}
	return []byte(strconv.Itoa(n*mul + add))
}

// scaleCmd turns a command of the specification's small universe into the block-scaled command that is sent.
func scaleCmd(cmd [][]byte, B int) [][]byte {
	if B <= 1 || len(cmd) == 0 {
		return cmd
	}
	out := make([][]byte, len(cmd))
	copy(out, cmd)
	switch strings.ToUpper(string(cmd[0])) {
	case "SET", "SETNX", "GETSET", "APPEND":
		if len(cmd) >= 3 {
			out[2] = expandBytes(cmd[2], B)
		}
	case "MSET", "MSETNX":
		for i := 2; i < len(cmd); i += 2 {
			out[i] = expandBytes(cmd[i], B)
		}
	case "SETRANGE":
		if len(cmd) >= 4 {
			out[2] = scaleInt(cmd[2], B, 0)
			out[3] = expandBytes(cmd[3], B)
		}
	case "GETRANGE", "SUBSTR", "BITCOUNT":
		if len(cmd) >= 4 {
			out[2] = scaleInt(cmd[2], B, 0)
			out[3] = scaleInt(cmd[3], B, B-1)
		}
	}
	return out
}

func tornJ(what string) any { return J{"t": "torn", "detail": what} }

// unscaleReply maps the reply of a scaled command back into the specification's universe.
func unscaleReply(cmd [][]byte, rep *Reply, B int) any {
	if B <= 1 || rep == nil || len(cmd) == 0 {
		return replyJ(rep)
	}
	bulk := func(r *Reply) any {
		if r.Null || (r.Kind != '$' && r.Kind != '=') {
			return replyJ(r)
		}
		c, ok := compressBytes(r.Str, B)
		if !ok {
			return tornJ(fmt.Sprintf("bulk of %d bytes is not made of uniform blocks of %d", len(r.Str), B))
		}
		return J{"t": "bulk", "s": bytesJ(c)}
	}
	num := func(r *Reply) any {
		if r.Kind != ':' {
			return replyJ(r)
		}
		if r.Int%int64(B) != 0 {
			return tornJ(fmt.Sprintf("integer %d is not a multiple of %d", r.Int, B))
		}
		return J{"t": "int", "n": r.Int / int64(B)}
	}
	switch strings.ToUpper(string(cmd[0])) {
	case "GET", "GETDEL", "GETEX", "GETSET", "GETRANGE", "SUBSTR", "SET":
		return bulk(rep)
	case "MGET":
		if rep.Kind == '*' && !rep.Null {
			a := make([]any, len(rep.Elems))
			for i, e := range rep.Elems {
				a[i] = bulk(e)
			}
			return J{"t": "arr", "a": a}
		}
	case "STRLEN", "APPEND", "SETRANGE", "BITCOUNT", "BITOP":
		return num(rep)
	}
	return replyJ(rep)
}

// scaleLoad stores the scaled form of every string of the initial state (after the ordinary loader ran).
func scaleLoad(c *Conn, pre J, B int) error {
	cur := -1
	for _, e := range jList(pre["ents"]) {
		ent := e.(J)
		v := ent["v"].(J)
		if jStr(v["ty"]) != "string" {
			continue
		}
		db := int(jInt(ent["db"]))
		if db != cur {
			if r, err := c.DoS("SELECT", fmt.Sprint(db)); err != nil || r.Kind == '-' {
				return fmt.Errorf("loader SELECT %d: %v %v", db, r, err)
			}
			cur = db
		}
		if r, err := c.Do([]byte("SET"), jBytes(ent["k"]), expandBytes(jBytes(v["s"]), B)); err != nil || r.Kind == '-' {
			return fmt.Errorf("scaled loader SET: %v %v", r, err)
		}
	}
	if cur > 0 {
		if r, err := c.DoS("SELECT", "0"); err != nil || r.Kind == '-' {
			return fmt.Errorf("loader SELECT 0: %v %v", r, err)
		}
	}
	return nil
}

// unscaleState maps the projected final state back; a string that has no counterpart becomes a marker value
// that no specification state contains.
func unscaleState(st ObsState, B int) {
	for _, db := range st {
		for _, v := range db {
			if v.Ty != "string" {
				continue
			}
			if c, ok := compressBytes(v.S, B); ok {
				v.S = c
			} else {
				v.S = []byte(fmt.Sprintf("TORN(%d bytes)", len(v.S)))
			}
		}
	}
}
