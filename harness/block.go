package main

import (
	"bufio"
	"encoding/json"
	"flag"
	"fmt"
	"io"
	"os"
	"strings"
	"sync"
	"time"
)

// E3 (C11/C12): programs with blocking commands, executed step by step on real connections.  A step is
// complete when the issuing connection has its reply or is confirmed blocked (announced by the verif hook
// at blk.captured, or held at an armed gate); after every step the deferred replies that arrived on
// blocked connections, the databases and the set of still-blocked connections are compared with the model.

type blockConn struct {
	cn      *Conn
	id      int64 // CLIENT ID
	pending bool  // a blocking command was sent and has not been answered
	closed  bool
	since   time.Time // when the pending blocking command was sent
	toMs    int64     // its timeout in ms (0: none)
}

// timeout argument of a blocking command in ms (0 when absent or not finite)
func blockTimeoutMs(cmd [][]byte) int64 {
	if len(cmd) < 2 {
		return 0
	}
	a := cmd[len(cmd)-1]
	if strings.EqualFold(string(cmd[0]), "BLMPOP") {
		a = cmd[1]
	}
	var f float64
	if _, err := fmt.Sscan(string(a), &f); err != nil || f <= 0 {
		return 0
	}
	return int64(f * 1000)
}

func (w *worker) ctl(line string) {
	io.WriteString(w.child.stdin, line+"\n")
}

// waitLine waits for a line of the child's stdout that satisfies pred.
func (w *worker) waitLine(pred func(string) bool, d time.Duration) bool {
	deadline := time.After(d)
	for {
		select {
		case l := <-w.child.out:
			if pred(l) {
				return true
			}
		case <-deadline:
			return false
		}
	}
}

func (w *worker) runBlock(cs J) (res CaseResult) {
	res.Id = jInt(cs["id"])
	fail := func(step int, status, detail string) CaseResult {
		sr := StepResult{Step: step, Status: status, Detail: detail}
		if w.child != nil && !w.child.Alive() {
			sr.Status = "crash"
			sr.Stderr = w.child.Stderr()
		}
		res.Status = sr.Status
		res.Fail = &sr
		w.restart() // goroutines of blocked clients may linger: every case gets a fresh server
		return res
	}
	w.restart()
	if err := w.ensureChild(); err != nil {
		return fail(-1, "error", err.Error())
	}
	defer w.restart()
	w.ctl("notify blk.captured 0")
	if !w.waitLine(func(l string) bool { return strings.HasPrefix(l, "NOTIFYING") }, 3*time.Second) {
		return fail(-1, "error", "child does not answer control lines (built without the verif tag?)")
	}
	pre := cs["pre"].(J)
	t0 := time.Now()
	ctx := &MatchCtx{T0: t0.UnixMilli()}
	obsC, err := Dial(w.port, w.timeout)
	if err != nil {
		return fail(-1, "error", err.Error())
	}
	defer obsC.Close()
	if err := loadState(obsC, pre, ctx); err != nil {
		return fail(0, "loadfail", err.Error())
	}
	conns := map[int64]*blockConn{}
	defer func() {
		for _, c := range conns {
			c.cn.Close()
		}
	}()
	for _, c := range jList(pre["conn"]) {
		id := jInt(c.(J)["id"])
		cn, err := Dial(w.port, w.timeout)
		if err != nil {
			return fail(-1, "error", err.Error())
		}
		r, err := cn.DoS("CLIENT", "ID")
		if err != nil || r.Kind != ':' {
			return fail(-1, "error", fmt.Sprintf("CLIENT ID: %v %v", r, err))
		}
		conns[id] = &blockConn{cn: cn, id: r.Int}
	}
	steps := jList(cs["steps"])
	var allStates []J
	allStates = append(allStates, pre)
	for _, s := range steps {
		allStates = append(allStates, s.(J)["ideal"].(J)["post"].(J))
	}
	dbs, extra := stateDbs(allStates...)
	dm := &deadlineModes{byValue: map[int64]string{}}
	ctx.Modes = dm
	gate := map[int64]string{}
	subst := func(cmd [][]byte) [][]byte {
		out := make([][]byte, len(cmd))
		for i, a := range cmd {
			out[i] = a
			if strings.HasPrefix(string(a), "@ID:") {
				var n int64
				fmt.Sscan(string(a[4:]), &n)
				if bc := conns[n]; bc != nil {
					out[i] = []byte(fmt.Sprint(bc.id))
				}
			}
		}
		return out
	}
	// collect replies that arrive on connections with a pending blocking command
	collect := func(settle time.Duration) map[int64]*Reply {
		got := map[int64]*Reply{}
		deadline := time.Now().Add(settle)
		for {
			progress := false
			for id, bc := range conns {
				if !bc.pending || bc.closed {
					continue
				}
				if r, err := bc.cn.ReadT(4 * time.Millisecond); err == nil {
					got[id] = r
					bc.pending = false
					progress = true
				}
			}
			if !progress && time.Now().After(deadline) {
				return got
			}
			if progress {
				deadline = time.Now().Add(settle / 2)
			}
		}
	}
	realOk := true
	modelNow := jInt(pre["now"])
	_ = modelNow
	for i, s := range steps {
		st := s.(J)
		ideal := st["ideal"].(J)
		var real J
		if rl, ok := st["real"].(J); ok {
			real = rl
		}
		c := jInt(st["c"])
		var cmd [][]byte
		if c != 0 {
			cmd = jCmd(st["cmd"])
		} else {
			cmd = [][]byte{[]byte("@tick")}
		}
		sr := StepResult{Step: i + 1, Cmd: cmdString(cmd)}
		var rep *Reply
		immediateBlocked := false
		settle := 60 * time.Millisecond
		switch {
		case c == 0:
			target := t0.Add(time.Duration(jInt(ideal["post"].(J)["now"])-1000000+30) * time.Millisecond)
			if t2 := time.Now().Add(time.Duration(jInt(st["cmd"].([]any)[0])+30) * time.Millisecond); t2.After(target) {
				target = t2
			}
			if d := time.Until(target); d > 0 {
				time.Sleep(d)
			}
			modelNow = jInt(ideal["post"].(J)["now"])
			sr.Cmd = fmt.Sprintf("(%d ms pass)", jInt(st["cmd"].([]any)[0]))
		case string(cmd[0]) == "@gate":
			gate[c] = string(cmd[1])
			w.ctl(fmt.Sprintf("arm blk.%s %d", cmd[1], conns[c].id))
			if !w.waitLine(func(l string) bool { return strings.HasPrefix(l, "ARMED") }, 3*time.Second) {
				return fail(i+1, "error", "gate not armed")
			}
		case string(cmd[0]) == "@release":
			w.ctl(fmt.Sprintf("release blk.%s %d", gate[c], conns[c].id))
			w.waitLine(func(l string) bool { return strings.HasPrefix(l, "RELEASED") }, time.Second)
			delete(gate, c)
			settle = 120 * time.Millisecond
		case string(cmd[0]) == "@close":
			conns[c].cn.Close()
			conns[c].closed = true
			settle = 80 * time.Millisecond
		default:
			bc := conns[c]
			// drain stale notifications
			for len(w.child.out) > 0 {
				<-w.child.out
			}
			if err := bc.cn.Send(subst(cmd)); err != nil {
				return fail(i+1, "noreply", "write: "+err.Error())
			}
			// either the reply arrives, or the client is announced as blocked / held at its gate
			type rr struct {
				r   *Reply
				err error
			}
			rch := make(chan rr, 1)
			stop := make(chan struct{})
			go func() {
				for {
					r, err := bc.cn.ReadT(20 * time.Millisecond)
					if err == nil || !isTimeout(err) {
						rch <- rr{r, err}
						return
					}
					select {
					case <-stop:
						rch <- rr{nil, err}
						return
					default:
					}
				}
			}()
			mine := fmt.Sprint(bc.id)
			deadline := time.After(2 * time.Second)
			done := false
			for !done {
				select {
				case x := <-rch:
					if x.err != nil {
						close(stop)
						return fail(i+1, "noreply", fmt.Sprintf("%s: %v", cmdString(cmd), x.err))
					}
					rep = x.r
					done = true
				case l := <-w.child.out:
					f := strings.Fields(l)
					if len(f) == 3 && f[2] == mine && ((f[0] == "AT" && f[1] == "blk.captured") || f[0] == "PARKED") {
						close(stop)
						x := <-rch
						if x.r != nil {
							rep = x.r
						} else {
							immediateBlocked = true
							bc.pending = true
							bc.since = time.Now()
							bc.toMs = blockTimeoutMs(cmd)
						}
						done = true
					}
				case <-deadline:
					close(stop)
					<-rch
					return fail(i+1, "noreply", fmt.Sprintf("%s: neither a reply nor a blocked client within 2 s", cmdString(cmd)))
				}
			}
		}
		ctx.ElapsedMs = time.Since(t0).Milliseconds()
		if i == len(steps)-1 && settle < 200*time.Millisecond {
			settle = 200 * time.Millisecond
		}
		deferred := collect(settle)
		ob, err := project(obsC, dbs, extra)
		if err != nil {
			return fail(i+1, "noreply", "projection: "+err.Error())
		}
		check := func(e J) string {
			et := jStr(e["r"].(J)["t"])
			if c != 0 && et != "ctl" && et != "tick" {
				if et == "blocked" {
					if !immediateBlocked {
						return fmt.Sprintf("expected the client to block, but it got the reply %s", rep)
					}
				} else {
					if immediateBlocked {
						return fmt.Sprintf("expected the reply %s, but the client blocked", expValString(e["r"].(J)))
					}
					if !matchReply(e["r"].(J), rep, ctx) {
						return fmt.Sprintf("reply: expected %s, observed %s", expValString(e["r"].(J)), rep)
					}
				}
			}
			want := map[int64]J{}
			for _, d := range jList(e["deferred"]) {
				want[jInt(d.(J)["c"])] = d.(J)["r"].(J)
			}
			for id, r := range deferred {
				wr, ok := want[id]
				if !ok {
					if bc := conns[id]; r.Null {
						if bc.toMs > 0 && time.Since(bc.since).Milliseconds() >= bc.toMs-150 {
							return "timing: a timed block ran out in wall-clock time before the model clock got there"
						}
					}
					return fmt.Sprintf("blocked connection %d was answered %s; the model expects it to stay blocked", id, r)
				}
				if !matchReply(wr, r, ctx) {
					return fmt.Sprintf("blocked connection %d: expected %s, observed %s", id, expValString(wr), r)
				}
			}
			for id, wr := range want {
				if _, ok := deferred[id]; !ok {
					return fmt.Sprintf("blocked connection %d: expected to be completed with %s, but no reply arrived", id, expValString(wr))
				}
			}
			dm.note(e)
			return compareState(e["post"].(J), ob, ctx, dm)
		}
		d := check(ideal)
		d2 := "-"
		if real != nil {
			d2 = check(real)
		}
		// the model is synchronous, the server is not: when neither reading matches yet, give woken clients
		// (and connections that were closed while blocked, whose effect has no reply) more time to act
		// (after a step of the clock only briefly: what the deadline ends must have ended by then)
		maxTries, wait := 4, 150*time.Millisecond
		if c == 0 {
			maxTries, wait = 1, 100*time.Millisecond
		}
		for try := 0; try < maxTries && d != "" && !strings.HasPrefix(d, "timing:") && !(real != nil && realOk && d2 == ""); try++ {
			for id, r := range collect(wait) {
				deferred[id] = r
			}
			if ob, err = project(obsC, dbs, extra); err != nil {
				return fail(i+1, "noreply", "projection: "+err.Error())
			}
			d = check(ideal)
			if real != nil {
				d2 = check(real)
			}
		}
		if strings.HasPrefix(d, "timing:") || strings.HasPrefix(d2, "timing:") {
			return fail(i+1, "error", "timing: a timed block ran out in wall-clock time before the model clock got there")
		}
		if d == "" {
			if real != nil && d2 != "" {
				realOk = false
			}
			res.Steps = i + 1
			res.Changed = res.Changed || len(deferred) > 0 || immediateBlocked
			continue
		}
		if real != nil && realOk && d2 == "" {
			sr.Status = "known"
			for _, x := range jList(real["dv"]) {
				sr.Dv = append(sr.Dv, jStr(x))
			}
			sr.Detail = d
			res.Known = append(res.Known, sr)
			res.Steps = i + 1
			res.Status = "known"
			return res
		}
		sr.Status = "viol"
		sr.Detail = d
		sr.Observed = fmt.Sprintf("reply=%v blocked=%v deferred=%v state: %s", rep, immediateBlocked, deferred, ob.String())
		res.Status = "viol"
		res.Fail = &sr
		return res
	}
	res.Status = "ok"
	return res
}

func blockMain(args []string) {
	fs := flag.NewFlagSet("block", flag.ExitOnError)
	in := fs.String("cases", "", "cases file (JSON lines)")
	out := fs.String("out", "", "results file (JSON lines)")
	nw := fs.Int("workers", 16, "parallel emulator children")
	basePort := fs.Int("port", 26500, "first tcp port")
	fs.Parse(args)
	f, err := os.Open(*in)
	if err != nil {
		fmt.Fprintln(os.Stderr, err)
		os.Exit(2)
	}
	defer f.Close()
	of, err := os.Create(*out)
	if err != nil {
		fmt.Fprintln(os.Stderr, err)
		os.Exit(2)
	}
	defer of.Close()
	ow := bufio.NewWriter(of)
	defer ow.Flush()
	var omu sync.Mutex
	jobs := make(chan J, 256)
	var wg sync.WaitGroup
	for i := 0; i < *nw; i++ {
		wg.Add(1)
		go func(i int) {
			defer wg.Done()
			w := &worker{port: *basePort + i, timeout: 2 * time.Second}
			defer w.restart()
			for cs := range jobs {
				r := w.runBlock(cs)
				// timing-inconclusive runs and infrastructure hiccups (child start, control channel) are re-run
				for try := 0; try < 3 && r.Status == "error"; try++ {
					time.Sleep(100 * time.Millisecond)
					r = w.runBlock(cs)
				}
				if r.Status == "error" && r.Fail != nil && strings.HasPrefix(r.Fail.Detail, "timing:") {
					r.Status = "skip"
				}
				b, _ := json.Marshal(r)
				omu.Lock()
				ow.Write(b)
				ow.WriteByte('\n')
				omu.Unlock()
			}
		}(i)
	}
	sc := bufio.NewScanner(f)
	sc.Buffer(make([]byte, 1<<20), 1<<26)
	for sc.Scan() {
		var cs J
		if err := json.Unmarshal(sc.Bytes(), &cs); err != nil {
			fmt.Fprintln(os.Stderr, "bad case line:", err)
			os.Exit(2)
		}
		jobs <- cs
	}
	close(jobs)
	wg.Wait()
}

func init() { engines["block"] = blockMain }
