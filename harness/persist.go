package main

import (
	"bufio"
	"encoding/json"
	"flag"
	"fmt"
	"os"
	"path/filepath"
	"sort"
	"sync"
	"time"
)

// E6 (C19): persistence.  For every case: an emulator with a persist path is brought into the pre-state
// and closed cleanly (snapshot = pre-state); a second instance loads it (nothing is dirty), executes the
// case's commands and is closed cleanly; a third instance loads what is on disk and its complete state
// is compared with the specification's expectation.  With stage capture, the on-disk image at every
// stage of every snapshot write of the second instance is loaded by further instances.

func (w *worker) startPersist(base string, extra ...string) error {
	w.restart()
	w.extra = append([]string{"-persist", base}, extra...)
	return w.ensureChild()
}

func (w *worker) closeClean() bool {
	if w.child == nil {
		return false
	}
	ok := w.child.CloseClean(5 * time.Second)
	w.child = nil
	return ok
}

func (w *worker) observe(dbs []int, extra map[int][]string) (ObsState, error) {
	c, err := Dial(w.port, w.timeout)
	if err != nil {
		return nil, err
	}
	defer c.Close()
	return project(c, dbs, extra)
}

func (w *worker) runPersist(cs J, stages bool) J {
	id := jInt(cs["id"])
	res := J{"id": id, "status": "ok"}
	dir, err := os.MkdirTemp("", "verif-persist-")
	if err != nil {
		return J{"id": id, "status": "error", "detail": err.Error()}
	}
	defer os.RemoveAll(dir)
	defer w.restart()
	base := filepath.Join(dir, "data")
	fail := func(status, detail string) J {
		res["status"], res["detail"] = status, detail
		if w.child != nil && !w.child.Alive() {
			res["stderr"] = w.child.Stderr()
		}
		return res
	}
	pre := cs["pre"].(J)
	steps := jList(cs["steps"])
	ideal := steps[len(steps)-1].(J)["ideal"].(J)
	var real J
	if rl, ok := steps[len(steps)-1].(J)["real"].(J); ok {
		real = rl
	}
	states := []J{pre, ideal["post"].(J)}
	if real != nil {
		states = append(states, real["post"].(J))
	}
	dbs, extra := stateDbs(states...)
	ctx := &MatchCtx{T0: time.Now().UnixMilli()}
	dm := &deadlineModes{byValue: map[int64]string{}}
	// instance 1: build the pre-state, clean shutdown
	if err := w.startPersist(base); err != nil {
		return fail("error", err.Error())
	}
	ld, err := Dial(w.port, w.timeout)
	if err != nil {
		return fail("error", err.Error())
	}
	if err := loadState(ld, pre, ctx); err != nil {
		ld.Close()
		return fail("error", "load: "+err.Error())
	}
	ld.Close()
	if !w.closeClean() {
		return fail("viol", "Close() of the first instance did not return within 5 s")
	}
	// instance 2: loads the snapshot, runs the commands, clean shutdown
	// (not under the persist directory: the emulator loads every <base>.db<n> it finds below it, at any depth)
	stagesDir, err := os.MkdirTemp("", "verif-stages-")
	if err != nil {
		return fail("error", err.Error())
	}
	defer os.RemoveAll(stagesDir)
	var ex []string
	if stages {
		os.MkdirAll(stagesDir, 0o755)
		ex = []string{"-savestages", stagesDir}
	}
	if err := w.startPersist(base, ex...); err != nil {
		return fail("error", err.Error())
	}
	ob, err := w.observe(dbs, extra)
	if err != nil {
		return fail("error", "projection after reload: "+err.Error())
	}
	if d := compareState(pre, ob, ctx, dm); d != "" {
		return fail("reloadfail", "state after shutdown + restart differs from the state before it (no command in between): "+d)
	}
	cn, err := Dial(w.port, w.timeout)
	if err != nil {
		return fail("error", err.Error())
	}
	for _, s := range steps {
		st := s.(J)
		dm.note(st["ideal"].(J))
		cmd := ctx.substTime(jCmd(st["cmd"]))
		if _, err := cn.Do(cmd...); err != nil {
			cn.Close()
			if real != nil && jStr(real["r"].(J)["t"]) == "dead" {
				res["status"] = "skipped"
				return res
			}
			return fail("noreply", fmt.Sprintf("%s: no reply: %v", cmdString(cmd), err))
		}
	}
	cn.Close()
	if !w.closeClean() {
		return fail("viol", "Close() did not return within 5 s")
	}
	// instance 3: what a restart sees
	if err := w.startPersist(base); err != nil {
		return fail("error", err.Error())
	}
	ctx.ElapsedMs = time.Since(time.UnixMilli(ctx.T0)).Milliseconds()
	ob, err = w.observe(dbs, extra)
	if err != nil {
		return fail("error", "projection after restart: "+err.Error())
	}
	w.restart()
	d := compareState(ideal["post"].(J), ob, ctx, dm)
	if d != "" {
		if real != nil {
			dm.note(real)
			if d2 := compareState(real["post"].(J), ob, ctx, dm); d2 == "" {
				res["status"] = "known"
				res["dv"] = real["dv"]
				res["detail"] = d
				d = ""
			}
		}
		if d != "" {
			return fail("viol", "after clean shutdown and restart: "+d+" ; observed: "+ob.String())
		}
	}
	if !stages {
		return res
	}
	// every captured stage image must load as the previous or the new snapshot
	imgs, _ := os.ReadDir(stagesDir)
	names := []string{}
	for _, e := range imgs {
		names = append(names, e.Name())
	}
	sort.Strings(names)
	var torn []string
	nimg, tornEmpty := 0, 0
	for _, name := range names {
		ents, _ := os.ReadDir(filepath.Join(stagesDir, name))
		for _, e := range ents { // the image directory holds files named data.db<n>
			_ = e
		}
		ibase := filepath.Join(stagesDir, name, "data")
		if err := w.startPersist(ibase); err != nil {
			return fail("error", "image "+name+": "+err.Error())
		}
		iob, err := w.observe(dbs, extra)
		w.restart()
		if err != nil {
			return fail("error", "image "+name+": "+err.Error())
		}
		nimg++
		// "either the previous or the new snapshot of EACH database": judged database by database (a shutdown
		// that writes several files is not atomic across them, and the property does not ask for that)
		allDbs := map[int]bool{}
		for db := range iob {
			allDbs[db] = true
		}
		for _, st := range []J{pre, ideal["post"].(J)} {
			for _, e := range jList(st["ents"]) {
				allDbs[int(jInt(e.(J)["db"]))] = true
			}
		}
		for db := range allDbs {
			only := ObsState{}
			if m, ok := iob[db]; ok && len(m) > 0 {
				only[db] = m
			}
			restrict := func(st J) J {
				var ents []any
				for _, e := range jList(st["ents"]) {
					if int(jInt(e.(J)["db"])) == db {
						ents = append(ents, e)
					}
				}
				return J{"now": st["now"], "ents": ents}
			}
			if compareState(restrict(pre), only, ctx, dm) == "" || compareState(restrict(ideal["post"].(J)), only, ctx, dm) == "" {
				continue
			}
			if real != nil && compareState(restrict(real["post"].(J)), only, ctx, dm) == "" {
				continue
			}
			if len(only[db]) == 0 {
				tornEmpty++
			} else {
				torn = append(torn, fmt.Sprintf("%s: database %d loads as %s", name, db, only.String()))
			}
		}
	}
	res["images"] = nimg
	res["torn_empty"] = tornEmpty
	if len(torn) > 0 {
		res["torn"] = torn
	}
	return res
}

func persistMain(args []string) {
	fs := flag.NewFlagSet("persist", flag.ExitOnError)
	in := fs.String("cases", "", "cases file (JSON lines)")
	out := fs.String("out", "", "results file (JSON lines)")
	nw := fs.Int("workers", 12, "parallel workers")
	basePort := fs.Int("port", 25500, "first tcp port")
	stages := fs.Bool("stages", false, "capture and load the on-disk image at every stage of every snapshot write")
	fs.Parse(args)
	f, err := os.Open(*in)
	if err != nil {
		fmt.Fprintln(os.Stderr, err)
		os.Exit(2)
	}
	defer f.Close()
	of, err := os.Create(*out)
	if err != nil {
		fmt.Fprintln(os.Stderr, err)
		os.Exit(2)
	}
	defer of.Close()
	ow := bufio.NewWriter(of)
	defer ow.Flush()
	var omu sync.Mutex
	jobs := make(chan J, 256)
	var wg sync.WaitGroup
	for i := 0; i < *nw; i++ {
		wg.Add(1)
		go func(i int) {
			defer wg.Done()
			w := &worker{port: *basePort + i, timeout: 2 * time.Second}
			for cs := range jobs {
				r := w.runPersist(cs, *stages)
				// (an "error" is a hiccup of the infrastructure - a child that did not come up, a port still in use: the
				// case is run again; if it persists it stays an error and the check is inconclusive)
				for try := 0; try < 2 && r["status"] == "error"; try++ {
					time.Sleep(100 * time.Millisecond)
					r = w.runPersist(cs, *stages)
				}
				b, _ := json.Marshal(r)
				omu.Lock()
				ow.Write(b)
				ow.WriteByte('\n')
				omu.Unlock()
			}
		}(i)
	}
	sc := bufio.NewScanner(f)
	sc.Buffer(make([]byte, 1<<20), 1<<26)
	for sc.Scan() {
		var cs J
		if err := json.Unmarshal(sc.Bytes(), &cs); err != nil {
			fmt.Fprintln(os.Stderr, "bad case line:", err)
			os.Exit(2)
		}
		jobs <- cs
	}
	close(jobs)
	wg.Wait()
}

func init() { engines["persist"] = persistMain }
