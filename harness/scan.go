package main

import (
	"bufio"
	"encoding/json"
	"flag"
	"fmt"
	"os"
	"strconv"
	"strings"
	"sync"
	"time"
)

// E-scan (C17): a TLC-generated history of additions, removals and SCAN calls is executed on a real
// collection (set / hash / keyspace); the harness only records what happened - per call the cursor sent,
// the cursor returned and the elements returned - and TLC (Trace_Scan) judges the guarantee.

func elemNameDefault(e int64) string { return fmt.Sprintf("e%d", e) }

func admitted(pattern string, name string) bool {
	switch {
	case pattern == "":
		return true
	case strings.HasSuffix(pattern, "*") && !strings.HasPrefix(pattern, "*"):
		return strings.HasPrefix(name, strings.TrimSuffix(pattern, "*"))
	case strings.HasPrefix(pattern, "*"):
		return strings.HasSuffix(name, strings.TrimPrefix(pattern, "*"))
	}
	return name == pattern
}

func (w *worker) runScan(cs J) J {
	id := jInt(cs["id"])
	res := J{"id": id, "status": "ok"}
	if err := w.ensureChild(); err != nil {
		return J{"id": id, "status": "error", "detail": err.Error()}
	}
	if err := w.flush(); err != nil {
		w.restart()
		return J{"id": id, "status": "error", "detail": err.Error()}
	}
	cn, err := Dial(w.port, w.timeout)
	if err != nil {
		return J{"id": id, "status": "error", "detail": err.Error()}
	}
	defer cn.Close()
	kind := jStr(cs["kind"])
	pattern := jStr(cs["match"])
	n := jInt(cs["n"])
	// element names: e<i>, or the names chosen by the dict steering (names[i-1])
	var names []string
	for _, x := range jList(cs["names"]) {
		names = append(names, jStr(x))
	}
	byName := map[string]int64{}
	for i, nm := range names {
		byName[nm] = int64(i + 1)
	}
	elemName := func(e int64) string {
		if int(e) <= len(names) {
			return names[e-1]
		}
		return elemNameDefault(e)
	}
	elemOf := func(name string) (int64, bool) {
		if v, ok := byName[name]; ok {
			return v, true
		}
		if len(names) > 0 || !strings.HasPrefix(name, "e") {
			return 0, false
		}
		v, err := strconv.ParseInt(strings.TrimPrefix(name, "e"), 10, 64)
		return v, err == nil
	}
	// how a key is removed in keyspace histories: DEL, UNLINK, or a deadline in the past
	delmode := jStr(cs["delmode"])
	var events []any
	cursor := "0"
	iterating := false
	calls := 0
	var match []int64
	for e := int64(1); e <= n; e++ {
		if admitted(pattern, elemName(e)) {
			match = append(match, e)
		}
	}
	fail := func(msg string) J {
		st := "viol"
		if !w.child.Alive() {
			st = "crash"
			res["stderr"] = w.child.Stderr()
			w.restart()
		}
		res["status"], res["detail"] = st, msg
		return res
	}
	step := func(count int64) (bool, string) {
		var args []string
		switch kind {
		case "set":
			args = []string{"SSCAN", "S", cursor}
		case "hash":
			args = []string{"HSCAN", "S", cursor}
		default:
			args = []string{"SCAN", cursor}
		}
		if pattern != "" {
			args = append(args, "MATCH", pattern)
		}
		args = append(args, "COUNT", fmt.Sprint(count))
		if kind == "keys" && jStr(cs["type"]) != "" {
			args = append(args, "TYPE", jStr(cs["type"]))
		}
		r, err := cn.DoS(args...)
		if err != nil {
			return false, fmt.Sprintf("%v: no reply: %v", args, err)
		}
		if r.Kind != '*' || len(r.Elems) != 2 || r.Elems[0].Null {
			return false, fmt.Sprintf("%v: malformed reply %s", args, r)
		}
		cout, perr := strconv.ParseUint(string(r.Elems[0].Str), 10, 64)
		if perr != nil {
			return false, fmt.Sprintf("%v: cursor is not a number: %s", args, r)
		}
		items := []int64{}
		el := r.Elems[1].Elems
		stepw := 1
		if kind == "hash" {
			stepw = 2
		}
		for i := 0; i+stepw-1 < len(el); i += stepw {
			name := string(el[i].Str)
			v, known := elemOf(name)
			if !known {
				return false, fmt.Sprintf("%v: returned an element that was never added: %q", args, name)
			}
			if kind == "hash" && string(el[i+1].Str) != "v"+name {
				return false, fmt.Sprintf("%v: field %q returned with value %q", args, name, el[i+1].Str)
			}
			items = append(items, v)
		}
		cin, _ := strconv.ParseUint(cursor, 10, 64)
		events = append(events, J{"op": "call", "cin": cin, "cout": cout, "items": items, "match": match})
		cursor = fmt.Sprint(cout)
		iterating = cout != 0
		calls++
		return true, ""
	}
	// initial elements (not part of the judged history: they are there before the first call)
	for _, x := range jList(cs["init"]) {
		e := jInt(x)
		var r *Reply
		var err error
		switch kind {
		case "set":
			r, err = cn.DoS("SADD", "S", elemName(e))
		case "hash":
			r, err = cn.DoS("HSET", "S", elemName(e), "v"+elemName(e))
		default:
			r, err = cn.DoS("SET", elemName(e), "v")
		}
		if err != nil || r.Kind == '-' {
			return fail(fmt.Sprintf("initial element %d: %v %v", e, r, err))
		}
		events = append(events, J{"op": "add", "e": e})
	}
	for _, p := range jList(cs["prog"]) {
		st := p.(J)
		e := int64(0)
		if v, ok := st["e"]; ok {
			e = jInt(v)
		}
		var r *Reply
		var err error
		switch jStr(st["op"]) {
		case "add":
			switch kind {
			case "set":
				r, err = cn.DoS("SADD", "S", elemName(e))
			case "hash":
				r, err = cn.DoS("HSET", "S", elemName(e), "v"+elemName(e))
			default:
				r, err = cn.DoS("SET", elemName(e), "v")
			}
			events = append(events, J{"op": "add", "e": e})
		case "del":
			switch kind {
			case "set":
				r, err = cn.DoS("SREM", "S", elemName(e))
			case "hash":
				r, err = cn.DoS("HDEL", "S", elemName(e))
			default:
				dm := delmode
				if h, ok := st["how"]; ok && jStr(h) != "" {
					dm = jStr(h)
				}
				switch dm {
				case "unlink":
					r, err = cn.DoS("UNLINK", elemName(e))
				case "expire":
					r, err = cn.DoS("PEXPIREAT", elemName(e), "1")
				default:
					r, err = cn.DoS("DEL", elemName(e))
				}
			}
			events = append(events, J{"op": "del", "e": e})
		case "step":
			if ok, msg := step(jInt(st["count"])); !ok {
				return fail(msg)
			}
			continue
		}
		if err != nil || r.Kind == '-' {
			return fail(fmt.Sprintf("%v: %v %v", st, r, err))
		}
	}
	// the collection is stable now: an iteration in progress must end within the call budget
	budget := int(4*n + 256)
	extra := 0
	for iterating && extra < budget {
		if ok, msg := step(10); !ok {
			return fail(msg)
		}
		extra++
	}
	if iterating {
		return fail(fmt.Sprintf("the iteration did not end within %d further calls on a stable collection", budget))
	}
	// one more complete iteration on the stable collection
	for first := true; first || iterating; first = false {
		if ok, msg := step(7); !ok {
			return fail(msg)
		}
		extra++
		if extra > 2*budget {
			return fail("a full iteration on a stable collection did not end within the call budget")
		}
	}
	// The collection is replaced by a derived copy of itself - the same elements, but a table that was built by another
	// code path (a store command's result, COPY, DUMP / RESTORE) - and iterated completely once more: the guarantee
	// is about the collection's content, not about how its table came to be.
	var rebuild [][]string
	_ = rebuild
	switch kind {
	case "set":
		rebuild = [][][]string{
			{{"SUNIONSTORE", "S", "S"}},
			{{"SDIFFSTORE", "S", "S", "nokey"}},
			{{"SINTERSTORE", "S", "S", "S"}},
			{{"COPY", "S", "T", "REPLACE"}, {"RENAME", "T", "S"}},
			{{"SUNIONSTORE", "T", "S", "nokey"}, {"RENAME", "T", "S"}},
			{{"@dumprestore", "S"}},
		}[id%6]
	case "hash":
		rebuild = [][][]string{
			{{"COPY", "S", "T", "REPLACE"}, {"RENAME", "T", "S"}},
			{{"@dumprestore", "S"}},
		}[id%2]
	default:
		if ks, err := cn.DoS("KEYS", "*"); err == nil && ks.Kind == '*' {
			for i, k := range ks.Elems {
				if i >= 6 {
					break
				}
				if id%2 == 0 {
					rebuild = append(rebuild, []string{"COPY", string(k.Str), "T", "REPLACE"}, []string{"RENAME", "T", string(k.Str)})
				} else {
					rebuild = append(rebuild, []string{"@dumprestore", string(k.Str)})
				}
			}
		}
	}
	how := []string{}
	for _, rc := range rebuild {
		how = append(how, strings.Join(rc, " "))
		if rc[0] == "@dumprestore" {
			d, err := cn.DoS("DUMP", rc[1])
			if err != nil {
				return fail(fmt.Sprintf("DUMP %s: no reply: %v", rc[1], err))
			}
			if d.Null || d.Kind == '-' {
				continue // (the collection is empty: there is no key)
			}
			if r, err := cn.Do([]byte("RESTORE"), []byte(rc[1]), []byte("0"), d.Str, []byte("REPLACE")); err != nil {
				return fail(fmt.Sprintf("RESTORE %s: no reply: %v", rc[1], err))
			} else if r.Kind == '-' {
				return fail(fmt.Sprintf("RESTORE %s REPLACE of its own DUMP replied %s", rc[1], r))
			}
			continue
		}
		if _, err := cn.DoS(rc...); err != nil { // (an error reply - no such key - means the collection is empty)
			return fail(fmt.Sprintf("%v: no reply: %v", rc, err))
		}
	}
	events = append(events, J{"op": "rebuild", "how": how})
	for first := true; first || iterating; first = false {
		if ok, msg := step(5); !ok {
			return fail(msg)
		}
		extra++
		if extra > 3*budget {
			return fail("a full iteration on a rebuilt collection did not end within the call budget")
		}
	}
	res["ev"] = events
	res["calls"] = calls
	return res
}

func scanMain(args []string) {
	fs := flag.NewFlagSet("scan", flag.ExitOnError)
	in := fs.String("cases", "", "cases file (JSON lines)")
	out := fs.String("out", "", "results file (JSON lines)")
	nw := fs.Int("workers", 8, "parallel emulator children")
	basePort := fs.Int("port", 25000, "first tcp port")
	fs.Parse(args)
	f, err := os.Open(*in)
	if err != nil {
		fmt.Fprintln(os.Stderr, err)
		os.Exit(2)
	}
	defer f.Close()
	of, err := os.Create(*out)
	if err != nil {
		fmt.Fprintln(os.Stderr, err)
		os.Exit(2)
	}
	defer of.Close()
	ow := bufio.NewWriter(of)
	defer ow.Flush()
	var omu sync.Mutex
	jobs := make(chan J, 64)
	var wg sync.WaitGroup
	for i := 0; i < *nw; i++ {
		wg.Add(1)
		go func(i int) {
			defer wg.Done()
			w := &worker{port: *basePort + i, timeout: 2 * time.Second}
			defer w.restart()
			for cs := range jobs {
				r := w.runScan(cs)
				// (an "error" is a hiccup of the infrastructure - a child that did not come up, a port still in use: the
				// case is run again; if it persists it stays an error and the check is inconclusive)
				for try := 0; try < 2 && r["status"] == "error"; try++ {
					time.Sleep(100 * time.Millisecond)
					r = w.runScan(cs)
				}
				b, _ := json.Marshal(r)
				omu.Lock()
				ow.Write(b)
				ow.WriteByte('\n')
				omu.Unlock()
			}
		}(i)
	}
	sc := bufio.NewScanner(f)
	sc.Buffer(make([]byte, 1<<20), 1<<26)
	for sc.Scan() {
		var cs J
		if err := json.Unmarshal(sc.Bytes(), &cs); err != nil {
			fmt.Fprintln(os.Stderr, "bad case line:", err)
			os.Exit(2)
		}
		jobs <- cs
	}
	close(jobs)
	wg.Wait()
}

func init() { engines["scan"] = scanMain }
