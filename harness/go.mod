module verifh

go 1.22

require (
	github.com/jimsnab/go-lane v1.30.0
	github.com/jimsnab/go-redisemu v0.0.0
)

require github.com/google/uuid v1.6.0 // indirect

replace github.com/jimsnab/go-redisemu => /repo
