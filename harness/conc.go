package main

import (
	"bufio"
	"bytes"
	"encoding/json"
	"flag"
	"fmt"
	"os"
	"sort"
	"strings"
	"sync"
	"sync/atomic"
	"time"
)

// E2: free-running concurrent connections; the real execution is recorded as a history of
// inv/ret events (ordered by a global atomic stamp) plus the state at quiescence, to be
// validated by TLC against Trace_Lin.tla.

type histEvent struct {
	stamp int64
	E     string `json:"e"`
	C     int    `json:"c"`
	I     int    `json:"i"`
	Cmd   any    `json:"cmd,omitempty"`
	R     any    `json:"r,omitempty"`
	Ms    int64  `json:"ms,omitempty"` // client-side elapsed ms (ret events of blocking ops)
}

// replyJ renders an observed reply in the vocabulary of the specification's reply trees.
func replyJ(r *Reply) any {
	if r == nil {
		return J{"t": "none"}
	}
	if r.Null {
		return J{"t": "nil"}
	}
	switch r.Kind {
	case ':':
		return J{"t": "int", "n": r.Int}
	case '$', '=':
		return J{"t": "bulk", "s": bytesJ(r.Str)}
	case '+':
		return J{"t": "simple", "v": string(r.Str)}
	case '-', '!':
		return J{"t": "err", "code": strings.SplitN(string(r.Str), " ", 2)[0]}
	case ',':
		return J{"t": "dbl", "d": bytesJ(r.Str)}
	case '#':
		n := 0
		if r.Bool {
			n = 1
		}
		return J{"t": "bool", "n": n}
	case '%':
		a := make([]any, len(r.Elems))
		for i, e := range r.Elems {
			a[i] = replyJ(e)
		}
		return J{"t": "map", "a": a}
	case '~':
		a := make([]any, len(r.Elems))
		for i, e := range r.Elems {
			a[i] = replyJ(e)
		}
		return J{"t": "set", "a": a}
	default:
		a := make([]any, len(r.Elems))
		for i, e := range r.Elems {
			a[i] = replyJ(e)
		}
		return J{"t": "arr", "a": a}
	}
}

func bytesJ(b []byte) []int {
	out := make([]int, len(b))
	for i, x := range b {
		out[i] = int(x)
	}
	return out
}

func cmdJ(cmd [][]byte) [][]int {
	out := make([][]int, len(cmd))
	for i, a := range cmd {
		out[i] = bytesJ(a)
	}
	return out
}

// entsJ renders a projected state in the shape of the specification's EntsJ.
func entsJ(st ObsState) []any {
	var out []any
	ids := []int{}
	for i := range st {
		ids = append(ids, i)
	}
	sort.Ints(ids)
	for _, db := range ids {
		ks := []string{}
		for k := range st[db] {
			ks = append(ks, k)
		}
		sort.Strings(ks)
		for _, k := range ks {
			v := st[db][k]
			vj := J{"ty": v.Ty, "exp": 0, "note": v.Note}
			switch v.Ty {
			case "string":
				vj["s"] = bytesJ(v.S)
			case "list":
				l := make([][]int, len(v.L))
				for i, e := range v.L {
					l[i] = bytesJ(e)
				}
				vj["l"] = l
			case "hash":
				fs := []string{}
				for f := range v.H {
					fs = append(fs, f)
				}
				sort.Strings(fs)
				h := make([][][]int, len(fs))
				for i, f := range fs {
					h[i] = [][]int{bytesJ([]byte(f)), bytesJ([]byte(v.H[f]))}
				}
				vj["h"] = h
			case "set":
				ms := []string{}
				for m := range v.M {
					ms = append(ms, m)
				}
				sort.Strings(ms)
				m := make([][]int, len(ms))
				for i, x := range ms {
					m[i] = bytesJ([]byte(x))
				}
				vj["m"] = m
			}
			if v.ExpMs >= 0 {
				vj["exp"] = 1 // some deadline (concurrent vocabularies set none)
			}
			out = append(out, J{"db": db, "k": bytesJ([]byte(k)), "v": vj})
		}
	}
	if out == nil {
		out = []any{}
	}
	return out
}

func (w *worker) runConc(cs J) J {
	id := jInt(cs["id"])
	fail := func(msg string) J {
		st := "error"
		stderr := ""
		if w.child != nil && !w.child.Alive() {
			st = "crash"
			stderr = w.child.Stderr()
		}
		return J{"id": id, "status": st, "detail": msg, "stderr": stderr}
	}
	if err := w.ensureChild(); err != nil {
		return fail("cannot start emulator child: " + err.Error())
	}
	ctl, err := Dial(w.port, w.timeout)
	if err != nil {
		w.restart()
		return fail("dial: " + err.Error())
	}
	if r, err := ctl.DoS("FLUSHALL"); err != nil || r.Kind != '+' {
		ctl.Close()
		w.restart()
		return fail(fmt.Sprintf("reset FLUSHALL: %v %v", r, err))
	}
	ctl.Close()
	pre := cs["pre"].(J)
	ctx := &MatchCtx{T0: time.Now().UnixMilli()}
	obsC, err := Dial(w.port, w.timeout)
	if err != nil {
		w.restart()
		return fail("dial observer: " + err.Error())
	}
	defer obsC.Close()
	if err := loadState(obsC, pre, ctx); err != nil {
		return fail("load: " + err.Error())
	}
	// scale > 1: block-scaled run (scale.go) - the history is recorded in the specification's small universe
	scale := 0
	if v, ok := cs["scale"]; ok {
		scale = int(jInt(v))
	}
	if scale > 1 {
		if err := scaleLoad(obsC, pre, scale); err != nil {
			return fail("load: " + err.Error())
		}
	}
	progs := cs["progs"].(J)
	ids := []int{}
	for k := range progs {
		var n int
		fmt.Sscan(k, &n)
		ids = append(ids, n)
	}
	sort.Ints(ids)
	conns := map[int]*Conn{}
	for _, c := range ids {
		cn, err := Dial(w.port, w.timeout)
		if err != nil {
			w.restart()
			return fail("dial: " + err.Error())
		}
		defer cn.Close()
		conns[c] = cn
	}
	pipe := jStr(cs["mode"]) == "pipe"
	chunk := 0
	if v, ok := cs["chunk"]; ok {
		chunk = int(jInt(v))
	}
	var stamp int64
	var mu sync.Mutex
	var events []histEvent
	add := func(e histEvent) {
		mu.Lock()
		events = append(events, e)
		mu.Unlock()
	}
	start := make(chan struct{})
	var wg sync.WaitGroup
	var broken int32
	if jStr(cs["mode"]) == "gated" {
		// Forced interleaving: connection 1 issues ONE command and is held at the moment it first releases the data
		// store lock (verif hook ds.unlocked); connection 2 then runs its whole program; connection 1 is released.
		// A command that does its work in one critical section has finished by then and the history is trivially
		// linearizable; one that comes back for a second critical section has been interleaved with.
		// (connection 1 may first run a prelude - WATCH k, MULTI, queued commands - un-gated: its last command is X)
		p1 := jList(progs["1"])
		for i, cm := range p1[:len(p1)-1] {
			cmd := jCmd(cm)
			add(histEvent{stamp: atomic.AddInt64(&stamp, 1), E: "inv", C: 1, I: i + 1, Cmd: cmdJ(cmd)})
			rep, err := conns[1].Do(cmd...)
			if err != nil {
				st := fail("connection 1 got no reply in its prelude: " + err.Error())
				w.restart()
				if st["status"] == "error" {
					st["status"] = "noreply"
				}
				return st
			}
			add(histEvent{stamp: atomic.AddInt64(&stamp, 1), E: "ret", C: 1, I: i + 1, R: replyJ(rep)})
		}
		xi := len(p1)
		x := jCmd(p1[xi-1])
		for len(w.child.out) > 0 {
			<-w.child.out
		}
		w.ctl("armonce ds.unlocked")
		if !w.waitLine(func(l string) bool { return strings.HasPrefix(l, "ARMED") }, 3*time.Second) {
			return fail("gate not armed (built without the verif tag?)")
		}
		add(histEvent{stamp: atomic.AddInt64(&stamp, 1), E: "inv", C: 1, I: xi, Cmd: cmdJ(x)})
		if err := conns[1].Send(x); err != nil {
			return fail("write: " + err.Error())
		}
		parked := w.waitLine(func(l string) bool { return strings.HasPrefix(l, "PARKED ds.unlocked") }, 300*time.Millisecond)
		if !parked {
			w.ctl("release ds.unlocked 0") // the command takes no lock: nothing to hold
			w.waitLine(func(l string) bool { return strings.HasPrefix(l, "RELEASED") }, time.Second)
		}
		for i, cm := range jList(progs["2"]) {
			cmd := jCmd(cm)
			add(histEvent{stamp: atomic.AddInt64(&stamp, 1), E: "inv", C: 2, I: i + 1, Cmd: cmdJ(cmd)})
			rep, err := conns[2].Do(cmd...)
			if err != nil {
				w.ctl("release ds.unlocked 0")
				st := fail("connection 2 got no reply while connection 1 was held after releasing the lock: " + err.Error())
				w.restart()
				if st["status"] == "error" {
					st["status"] = "noreply"
				}
				return st
			}
			add(histEvent{stamp: atomic.AddInt64(&stamp, 1), E: "ret", C: 2, I: i + 1, R: replyJ(rep)})
		}
		if parked {
			w.ctl("release ds.unlocked 0")
			w.waitLine(func(l string) bool { return strings.HasPrefix(l, "RELEASED") }, time.Second)
		}
		rep, err := conns[1].Read()
		if err != nil {
			st := fail("the held command got no reply after its release: " + err.Error())
			w.restart()
			if st["status"] == "error" {
				st["status"] = "noreply"
			}
			return st
		}
		add(histEvent{stamp: atomic.AddInt64(&stamp, 1), E: "ret", C: 1, I: xi, R: replyJ(rep)})
		ids = ids[:0]
		for k := range progs {
			var n int
			fmt.Sscan(k, &n)
			ids = append(ids, n)
		}
		sort.Ints(ids)
		for _, c := range ids {
			_ = c
		}
		goto recorded
	}
	for _, c := range ids {
		cmds := jList(progs[fmt.Sprint(c)])
		wg.Add(1)
		go func(c int, cmds []any) {
			defer wg.Done()
			cn := conns[c]
			<-start
			if pipe {
				// pipelined: the program is written in chunks (chunk = 0: all at once); the replies of a
				// chunk are read before the next chunk is written
				n := len(cmds)
				if chunk > 0 {
					n = chunk
				}
				for lo := 0; lo < len(cmds); lo += n {
					hi := lo + n
					if hi > len(cmds) {
						hi = len(cmds)
					}
					var buf bytes.Buffer
					for i := lo; i < hi; i++ {
						cmd := jCmd(cmds[i])
						add(histEvent{stamp: atomic.AddInt64(&stamp, 1), E: "inv", C: c, I: i + 1, Cmd: cmdJ(cmd)})
						buf.Write(EncodeCmd(scaleCmd(cmd, scale)))
					}
					cn.c.SetWriteDeadline(time.Now().Add(w.timeout))
					if _, err := cn.c.Write(buf.Bytes()); err != nil {
						atomic.StoreInt32(&broken, 1)
						return
					}
					for i := lo; i < hi; i++ {
						rep, err := cn.Read()
						if err != nil {
							atomic.StoreInt32(&broken, 1)
							return
						}
						add(histEvent{stamp: atomic.AddInt64(&stamp, 1), E: "ret", C: c, I: i + 1, R: unscaleReply(jCmd(cmds[i]), rep, scale)})
					}
				}
				return
			}
			for i, cm := range cmds {
				cmd := jCmd(cm)
				add(histEvent{stamp: atomic.AddInt64(&stamp, 1), E: "inv", C: c, I: i + 1, Cmd: cmdJ(cmd)})
				rep, err := cn.Do(scaleCmd(cmd, scale)...)
				if err != nil {
					atomic.StoreInt32(&broken, 1)
					return
				}
				add(histEvent{stamp: atomic.AddInt64(&stamp, 1), E: "ret", C: c, I: i + 1, R: unscaleReply(cmd, rep, scale)})
			}
		}(c, cmds)
	}
	close(start)
	wg.Wait()
recorded:
	if atomic.LoadInt32(&broken) != 0 {
		st := fail("a connection got no reply (timeout / closed)")
		w.restart()
		if st["status"] == "error" {
			st["status"] = "noreply"
		}
		return st
	}
	dbs, extra := stateDbs(pre)
	// include every key mentioned by any command in the projection
	ob, err := project(obsC, dbs, extra)
	if err != nil {
		w.restart()
		return fail("final projection: " + err.Error())
	}
	if scale > 1 {
		unscaleState(ob, scale)
	}
	sort.Slice(events, func(i, j int) bool { return events[i].stamp < events[j].stamp })
	// copy each op's reply onto its inv event (the trace spec prunes the search with it)
	replies := map[[2]int]any{}
	for _, e := range events {
		if e.E == "ret" {
			replies[[2]int{e.C, e.I}] = e.R
		}
	}
	evs := make([]any, len(events))
	// overlap statistics: ops of different connections whose [inv, ret] intervals intersect
	type iv struct{ c, a, b int }
	open := map[[2]int]int{}
	var ivs []iv
	for n, e := range events {
		if e.E == "inv" {
			e.R = replies[[2]int{e.C, e.I}]
			open[[2]int{e.C, e.I}] = n
		} else {
			ivs = append(ivs, iv{e.C, open[[2]int{e.C, e.I}], n})
		}
		evs[n] = e
	}
	overlaps := 0
	for i := range ivs {
		for j := i + 1; j < len(ivs); j++ {
			if ivs[i].c != ivs[j].c && ivs[i].a < ivs[j].b && ivs[j].a < ivs[i].b {
				overlaps++
			}
		}
	}
	// operations per connection (index = connection id - 1), each with its command and recorded reply
	ops := make([][]any, len(ids))
	for i := range ops {
		ops[i] = []any{}
	}
	for _, e := range events {
		if e.E == "inv" {
			ops[e.C-1] = append(ops[e.C-1], J{"cmd": e.Cmd, "r": replies[[2]int{e.C, e.I}]})
		}
	}
	for n, e := range events {
		evs[n] = J{"e": e.E, "c": e.C}
	}
	return J{"id": id, "status": "ok", "n": len(ids), "conns": ids, "pre": pre["ents"], "ev": evs, "ops": ops, "final": entsJ(ob), "overlaps": overlaps, "mode": jStr(cs["mode"])}
}

func concMain(args []string) {
	fs := flag.NewFlagSet("conc", flag.ExitOnError)
	in := fs.String("cases", "", "cases file (JSON lines)")
	out := fs.String("out", "", "histories file (JSON lines)")
	nw := fs.Int("workers", 4, "parallel emulator children")
	basePort := fs.Int("port", 22000, "first tcp port")
	timeoutMs := fs.Int("timeout", 3000, "reply timeout in ms")
	fs.Parse(args)
	f, err := os.Open(*in)
	if err != nil {
		fmt.Fprintln(os.Stderr, err)
		os.Exit(2)
	}
	defer f.Close()
	of, err := os.Create(*out)
	if err != nil {
		fmt.Fprintln(os.Stderr, err)
		os.Exit(2)
	}
	defer of.Close()
	ow := bufio.NewWriter(of)
	defer ow.Flush()
	var omu sync.Mutex
	jobs := make(chan J, 64)
	var wg sync.WaitGroup
	for i := 0; i < *nw; i++ {
		wg.Add(1)
		go func(i int) {
			defer wg.Done()
			w := &worker{port: *basePort + i, timeout: time.Duration(*timeoutMs) * time.Millisecond}
			defer w.restart()
			for cs := range jobs {
				r := w.runConc(cs)
				// (an "error" is a hiccup of the infrastructure - a child that did not come up, a port still in use: the
				// case is run again; if it persists it stays an error and the check is inconclusive)
				for try := 0; try < 2 && r["status"] == "error"; try++ {
					time.Sleep(100 * time.Millisecond)
					r = w.runConc(cs)
				}
				b, _ := json.Marshal(r)
				omu.Lock()
				ow.Write(b)
				ow.WriteByte('\n')
				omu.Unlock()
			}
		}(i)
	}
	sc := bufio.NewScanner(f)
	sc.Buffer(make([]byte, 1<<20), 1<<26)
	for sc.Scan() {
		var cs J
		if err := json.Unmarshal(sc.Bytes(), &cs); err != nil {
			fmt.Fprintln(os.Stderr, "bad case line:", err)
			os.Exit(2)
		}
		jobs <- cs
	}
	close(jobs)
	wg.Wait()
}

func init() { engines["conc"] = concMain }
