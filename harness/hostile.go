package main

import (
	"bufio"
	"encoding/json"
	"flag"
	"fmt"
	"os"
	"strings"
	"sync"
	"time"
)

// E5 (C13): hostile input.  Each case is sent to a child emulator on a fresh connection; afterwards the
// process must be alive and a second connection must be served; a well-formed command must have received
// exactly one well-formed reply within bounded time.

func firstLine(s string) string {
	for _, l := range strings.Split(s, "\n") {
		if strings.HasPrefix(l, "panic:") || strings.HasPrefix(l, "fatal error:") {
			return l
		}
	}
	if i := strings.IndexByte(s, '\n'); i > 0 {
		return s[:i]
	}
	return s
}

func (w *worker) probeAlive() string {
	if !w.child.Alive() {
		return "process died: " + firstLine(w.child.Stderr())
	}
	c, err := Dial(w.port, time.Second)
	if err != nil {
		return "second connection refused: " + err.Error()
	}
	defer c.Close()
	r, err := c.DoS("PING")
	if err != nil || r.Kind != '+' || string(r.Str) != "PONG" {
		if !w.child.Alive() {
			return "process died: " + firstLine(w.child.Stderr())
		}
		return fmt.Sprintf("second connection not served within 1 s: %v %v", r, err)
	}
	return ""
}

func (w *worker) runHostile(cs J) J {
	id := jInt(cs["id"])
	res := J{"id": id, "status": "ok"}
	if err := w.ensureChild(); err != nil {
		res["status"], res["detail"] = "error", err.Error()
		return res
	}
	if err := w.flush(); err != nil {
		w.restart()
		if err := w.ensureChild(); err != nil {
			res["status"], res["detail"] = "error", err.Error()
			return res
		}
	}
	if pre, ok := cs["pre"].(J); ok {
		ld, err := Dial(w.port, w.timeout)
		if err == nil {
			err = loadState(ld, pre, &MatchCtx{T0: time.Now().UnixMilli()})
			ld.Close()
		}
		if err != nil {
			res["status"], res["detail"] = "error", "load: "+err.Error()
			return res
		}
	}
	rc, err := dialRaw(w.port)
	if err != nil {
		res["status"], res["detail"] = "error", err.Error()
		return res
	}
	defer rc.c.Close()
	var data []byte
	wantReply := true
	if seq, ok := cs["seq"]; ok {
		// several commands on one connection: each must get exactly one reply
		// an argument "@DUMP" stands for the payload the last DUMP of this connection returned (a value that only
		// the server can produce flows back into a later command)
		var lastBulk []byte
		for i, c := range jList(seq) {
			cmd := jCmd(c)
			for k, a := range cmd {
				if string(a) == "@DUMP" {
					cmd[k] = lastBulk
				}
			}
			rc.c.SetWriteDeadline(time.Now().Add(2 * time.Second))
			rc.c.Write(EncodeCmd(cmd))
			rep, raw, err := rc.readValue(2 * time.Second)
			if err == nil && rep != nil && rep.Kind == '$' && !rep.Null {
				lastBulk = rep.Str
			}
			if err != nil {
				res["status"] = "viol"
				res["detail"] = fmt.Sprintf("command %d (%s): no single well-formed reply within 2 s: %v (bytes %q)", i+1, cmdString(jCmd(c)), err, trunc(raw, 100))
				if !w.child.Alive() {
					res["status"] = "crash"
					res["stderr"] = w.child.Stderr()
					res["detail"] = fmt.Sprintf("command %d (%s): process died: %s", i+1, cmdString(jCmd(c)), firstLine(w.child.Stderr()))
				}
				w.restart()
				return res
			}
		}
		if d := w.probeAlive(); d != "" {
			res["status"], res["detail"] = "viol", d
			w.restart()
		}
		return res
	}
	if raw, ok := cs["raw"]; ok {
		data = jBytes(raw)
		wantReply = cs["reply"] == true
	} else {
		data = EncodeCmd(jCmd(cs["cmd"]))
	}
	rc.c.SetWriteDeadline(time.Now().Add(2 * time.Second))
	// "cut": the bytes arrive in two segments with a pause in between (a slow or fragmenting client)
	if cut, ok := cs["cut"]; ok && int(jInt(cut)) > 0 && int(jInt(cut)) < len(data) {
		rc.c.Write(data[:jInt(cut)])
		time.Sleep(30 * time.Millisecond)
		rc.c.SetWriteDeadline(time.Now().Add(2 * time.Second))
		rc.c.Write(data[jInt(cut):])
	} else {
		rc.c.Write(data)
	}
	fail := ""
	nrep := 1
	if v, ok := cs["replies"]; ok && jInt(v) > 1 {
		nrep = int(jInt(v))
	}
	if wantReply {
		var rep *Reply
		var raw []byte
		var err error
		for k := 0; k < nrep && err == nil; k++ {
			rep, raw, err = rc.readValue(2 * time.Second)
		}
		if err != nil {
			fail = fmt.Sprintf("no single well-formed reply per command within 2 s: %v (bytes %q)", err, trunc(raw, 120))
		} else {
			res["reply"] = trunc([]byte(rep.String()), 80)
			// no second reply may follow
			rc.c.SetReadDeadline(time.Now().Add(4 * time.Millisecond))
			extra := make([]byte, 64)
			if n, _ := rc.c.Read(extra); n > 0 || len(rc.buf) > 0 {
				fail = fmt.Sprintf("more than one reply: surplus bytes %q", trunc(append(rc.buf, extra[:n]...), 80))
			}
		}
	} else {
		time.Sleep(20 * time.Millisecond)
	}
	if d := w.probeAlive(); d != "" {
		fail = d
	}
	if fail != "" {
		res["status"] = "viol"
		if !w.child.Alive() {
			res["status"] = "crash"
			res["stderr"] = w.child.Stderr()
		}
		res["detail"] = fail
		w.restart()
	}
	return res
}

func trunc(b []byte, n int) string {
	if len(b) > n {
		return string(b[:n]) + "..."
	}
	return string(b)
}

func hostileMain(args []string) {
	fs := flag.NewFlagSet("hostile", flag.ExitOnError)
	in := fs.String("cases", "", "cases file (JSON lines)")
	out := fs.String("out", "", "results file (JSON lines)")
	nw := fs.Int("workers", 16, "parallel emulator children")
	basePort := fs.Int("port", 24500, "first tcp port")
	fs.Parse(args)
	f, err := os.Open(*in)
	if err != nil {
		fmt.Fprintln(os.Stderr, err)
		os.Exit(2)
	}
	defer f.Close()
	of, err := os.Create(*out)
	if err != nil {
		fmt.Fprintln(os.Stderr, err)
		os.Exit(2)
	}
	defer of.Close()
	ow := bufio.NewWriter(of)
	defer ow.Flush()
	var omu sync.Mutex
	jobs := make(chan J, 256)
	var wg sync.WaitGroup
	for i := 0; i < *nw; i++ {
		wg.Add(1)
		go func(i int) {
			defer wg.Done()
			w := &worker{port: *basePort + i, timeout: 2 * time.Second, extra: []string{"-memlimit", "6000"}}
			defer w.restart()
			for cs := range jobs {
				r := w.runHostile(cs)
				// (an "error" is a hiccup of the infrastructure - a child that did not come up, a port still in use: the
				// case is run again; if it persists it stays an error and the check is inconclusive)
				for try := 0; try < 2 && r["status"] == "error"; try++ {
					time.Sleep(100 * time.Millisecond)
					r = w.runHostile(cs)
				}
				b, _ := json.Marshal(r)
				omu.Lock()
				ow.Write(b)
				ow.WriteByte('\n')
				omu.Unlock()
			}
		}(i)
	}
	sc := bufio.NewScanner(f)
	sc.Buffer(make([]byte, 1<<20), 1<<26)
	for sc.Scan() {
		var cs J
		if err := json.Unmarshal(sc.Bytes(), &cs); err != nil {
			fmt.Fprintln(os.Stderr, "bad case line:", err)
			os.Exit(2)
		}
		jobs <- cs
	}
	close(jobs)
	wg.Wait()
}

func init() { engines["hostile"] = hostileMain }
