//go:build verif

package main

import (
	"fmt"
	"sync"
)

// Gates: the parent process arms a gate (point, client id); a goroutine of the emulator that reaches an
// armed gate announces "PARKED <point> <id>" on stdout and waits until the parent releases it.
type gateKey struct {
	point string
	id    int64
}

var gateMu sync.Mutex
var gates = map[gateKey]chan struct{}{}
var gateAll = map[string]bool{} // point -> armed for every client
var notifyAll = map[string]bool{} // point -> announce "AT <point> <id>" without holding the client
var gateOnce = map[string]bool{}  // point -> hold the FIRST goroutine that arrives (whoever it is), then disarm

func gateArm(point string, id int64) {
	gateMu.Lock()
	defer gateMu.Unlock()
	if id == 0 {
		gateAll[point] = true
		return
	}
	gates[gateKey{point, id}] = make(chan struct{})
}

func gateArmOnce(point string) {
	gateMu.Lock()
	defer gateMu.Unlock()
	gateOnce[point] = true
}

func gateRelease(point string, id int64) {
	gateMu.Lock()
	defer gateMu.Unlock()
	if id == 0 {
		delete(gateAll, point)
		delete(gateOnce, point)
		for k, ch := range gates {
			if k.point == point {
				close(ch)
				delete(gates, k)
			}
		}
		return
	}
	if ch, ok := gates[gateKey{point, id}]; ok {
		close(ch)
		delete(gates, gateKey{point, id})
	}
}

func gateNotify(point string) {
	gateMu.Lock()
	defer gateMu.Unlock()
	notifyAll[point] = true
}

func gateWait(point string, id int64) {
	gateMu.Lock()
	if notifyAll[point] {
		fmt.Printf("AT %s %d\n", point, id)
	}
	ch, ok := gates[gateKey{point, id}]
	if !ok && gateAll[point] {
		ch = make(chan struct{})
		gates[gateKey{point, id}] = ch
		ok = true
	}
	if !ok && gateOnce[point] {
		// (kept under an id of its own: the point reports no client id, and later arrivals must pass)
		delete(gateOnce, point)
		ch = make(chan struct{})
		gates[gateKey{point, -1}] = ch
		ok = true
	}
	gateMu.Unlock()
	if !ok {
		return
	}
	fmt.Printf("PARKED %s %d\n", point, id)
	<-ch
}
