//go:build verif

package main

import "fmt"

// installServeHooks wires the verif-tagged schedule/trace points of the emulator to the
// control channel of this child (see sched.go).
func installServeHooks() { installVerifHooks() }

func setSaveStages(dir, base string) { saveStagesDir, persistBase = dir, base }

// controlLine handles "arm <point> <id>" / "release <point> <id>" from the parent (id 0 = every client).
func controlLine(line string) {
	var verb, point string
	var id int64
	if n, _ := fmt.Sscanf(line, "%s %s %d", &verb, &point, &id); n < 2 {
		return
	}
	switch verb {
	case "arm":
		gateArm(point, id)
		fmt.Println("ARMED", point, id)
	case "armonce":
		gateArmOnce(point)
		fmt.Println("ARMED", point, "once")
	case "notify":
		gateNotify(point)
		fmt.Println("NOTIFYING", point)
	case "release":
		gateRelease(point, id)
		fmt.Println("RELEASED", point, id)
	}
}
