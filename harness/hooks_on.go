//go:build verif

package main

// installServeHooks wires the verif-tagged schedule/trace points of the emulator to the
// control channel of this child (see sched.go).
func installServeHooks() { installVerifHooks() }
