package main

import (
	"fmt"
	"os"
)

func main() {
	if len(os.Args) < 2 {
		fmt.Fprintln(os.Stderr, "usage: verifh serve|replay|... [flags]")
		os.Exit(2)
	}
	switch os.Args[1] {
	case "serve":
		serveMain(os.Args[2:])
	case "replay":
		replayMain(os.Args[2:])
	default:
		if f, ok := engines[os.Args[1]]; ok {
			f(os.Args[2:])
			return
		}
		fmt.Fprintln(os.Stderr, "unknown subcommand", os.Args[1])
		os.Exit(2)
	}
}

var engines = map[string]func([]string){}
