package main

import (
	"bufio"
	"encoding/json"
	"flag"
	"fmt"
	"math/big"
	"os"
	"strconv"
	"sync"
	"time"
)

// E-pairs (C15): every case is executed twice from the same state - on a RESP2 connection and on a
// connection switched with HELLO 3 - and the two replies are recorded as typed trees.  The harness
// only parses; TLC (Trace_Resp.tla) judges r2 against Down(r3).

// replyT renders a reply with its exact wire type.
func replyT(r *Reply) any {
	if r == nil {
		return J{"t": "none"}
	}
	kind := string([]byte{r.Kind})
	if r.Null {
		return J{"t": "nil", "k": kind}
	}
	switch r.Kind {
	case ':':
		return J{"t": "int", "n": fmt.Sprint(r.Int)}
	case '$':
		return J{"t": "bulk", "s": bytesJ(r.Str)}
	case '=':
		s := r.Str
		if len(s) >= 4 {
			s = s[4:]
		}
		return J{"t": "verb", "s": bytesJ(s)}
	case '+':
		return J{"t": "simple", "s": bytesJ(r.Str)}
	case '-', '!':
		return J{"t": "err", "s": bytesJ(r.Str)}
	case ',':
		return J{"t": "dbl", "s": bytesJ(r.Str)}
	case '(':
		return J{"t": "big", "s": bytesJ(r.Str)}
	case '#':
		n := 0
		if r.Bool {
			n = 1
		}
		return J{"t": "bool", "n": n}
	}
	a := make([]any, len(r.Elems))
	for i, e := range r.Elems {
		a[i] = replyT(e)
	}
	switch r.Kind {
	case '%':
		return J{"t": "map", "a": a}
	case '~':
		return J{"t": "set", "a": a}
	case '>':
		return J{"t": "push", "a": a}
	case '|':
		return J{"t": "attr", "a": a}
	}
	return J{"t": "arr", "a": a}
}

func (w *worker) runPair(cs J) J {
	id := jInt(cs["id"])
	out := J{"id": id, "status": "ok"}
	steps := jList(cs["steps"])
	pre := cs["pre"].(J)
	var last [][]byte
	for _, proto := range []int{2, 3} {
		if err := w.ensureChild(); err != nil {
			return J{"id": id, "status": "error", "detail": err.Error()}
		}
		ctl, err := Dial(w.port, w.timeout)
		if err != nil {
			w.restart()
			return J{"id": id, "status": "error", "detail": err.Error()}
		}
		if r, err := ctl.DoS("FLUSHALL"); err != nil || r.Kind != '+' {
			ctl.Close()
			w.restart()
			return J{"id": id, "status": "error", "detail": "reset failed"}
		}
		ctl.Close()
		ctx := &MatchCtx{T0: time.Now().UnixMilli()}
		ld, err := Dial(w.port, w.timeout)
		if err != nil {
			w.restart()
			return J{"id": id, "status": "error", "detail": err.Error()}
		}
		if err := loadState(ld, pre, ctx); err != nil {
			ld.Close()
			return J{"id": id, "status": "error", "detail": "load: " + err.Error()}
		}
		ld.Close()
		cn, err := Dial(w.port, w.timeout)
		if err != nil {
			w.restart()
			return J{"id": id, "status": "error", "detail": err.Error()}
		}
		if proto == 3 {
			if r, err := cn.DoS("HELLO", "3"); err != nil || r.Kind == '-' {
				cn.Close()
				return J{"id": id, "status": "error", "detail": fmt.Sprintf("HELLO 3: %v %v", r, err)}
			}
		}
		var rep *Reply
		for _, s := range steps {
			cmd := ctx.substTime(jCmd(s.(J)["cmd"]))
			last = cmd
			rep, err = cn.Do(cmd...)
			if err != nil {
				break
			}
		}
		cn.Close()
		if err != nil {
			// no reply (crash / hang): not a protocol question - reported by the functional checks
			w.restart()
			return J{"id": id, "status": "noreply", "cmd": cmdJ(last)}
		}
		out[fmt.Sprintf("r%d", proto)] = replyT(rep)
	}
	out["cmd"] = cmdJ(last)
	return out
}

func pairsMain(args []string) {
	fs := flag.NewFlagSet("pairs", flag.ExitOnError)
	in := fs.String("cases", "", "cases file (JSON lines)")
	out := fs.String("out", "", "pairs file (JSON lines)")
	nw := fs.Int("workers", 8, "parallel emulator children")
	basePort := fs.Int("port", 23000, "first tcp port")
	hook := fs.Bool("hook", false, "children install the reply-tree dispatch hook (ECHO <json tree>)")
	fs.Parse(args)
	f, err := os.Open(*in)
	if err != nil {
		fmt.Fprintln(os.Stderr, err)
		os.Exit(2)
	}
	defer f.Close()
	of, err := os.Create(*out)
	if err != nil {
		fmt.Fprintln(os.Stderr, err)
		os.Exit(2)
	}
	defer of.Close()
	ow := bufio.NewWriter(of)
	defer ow.Flush()
	var omu sync.Mutex
	jobs := make(chan J, 256)
	var wg sync.WaitGroup
	for i := 0; i < *nw; i++ {
		wg.Add(1)
		go func(i int) {
			defer wg.Done()
			w := &worker{port: *basePort + i, timeout: 2 * time.Second}
			if *hook {
				w.extra = []string{"-treehook"}
			}
			defer w.restart()
			for cs := range jobs {
				r := w.runPair(cs)
				// (an "error" is a hiccup of the infrastructure - a child that did not come up, a port still in use: the
				// case is run again; if it persists it stays an error and the check is inconclusive)
				for try := 0; try < 2 && r["status"] == "error"; try++ {
					time.Sleep(100 * time.Millisecond)
					r = w.runPair(cs)
				}
				b, _ := json.Marshal(r)
				omu.Lock()
				ow.Write(b)
				ow.WriteByte('\n')
				omu.Unlock()
			}
		}(i)
	}
	sc := bufio.NewScanner(f)
	sc.Buffer(make([]byte, 1<<20), 1<<26)
	for sc.Scan() {
		var cs J
		if err := json.Unmarshal(sc.Bytes(), &cs); err != nil {
			fmt.Fprintln(os.Stderr, "bad case line:", err)
			os.Exit(2)
		}
		jobs <- cs
	}
	close(jobs)
	wg.Wait()
}

func init() { engines["pairs"] = pairsMain }

// treeToNative builds the native Go value the emulator's public dispatch hook returns for a reply tree
// given as JSON (used to exercise every RESP3 -> RESP2 conversion branch independently of the commands
// that happen to produce it today).
func treeToNative(t any) any {
	m, ok := t.(map[string]any)
	if !ok {
		return nil
	}
	switch m["t"] {
	case "nil":
		return nil
	case "int":
		return int64(m["n"].(float64))
	case "str":
		return m["s"].(string)
	case "bool":
		return m["n"].(float64) != 0
	case "dbl":
		f, _ := strconv.ParseFloat(m["s"].(string), 64)
		return f
	case "big":
		b, _ := new(big.Int).SetString(m["s"].(string), 10)
		return b
	case "arr":
		a := []any{}
		for _, e := range m["a"].([]any) {
			a = append(a, treeToNative(e))
		}
		return a
	case "map":
		mm := map[any]any{}
		for _, p := range m["a"].([]any) {
			pr := p.([]any)
			mm[treeToNative(pr[0])] = treeToNative(pr[1])
		}
		return mm
	case "set":
		s := map[any]struct{}{}
		for _, e := range m["a"].([]any) {
			s[treeToNative(e)] = struct{}{}
		}
		return s
	}
	return nil
}
