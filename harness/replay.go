package main

import (
	"bufio"
	"bytes"
	"encoding/json"
	"flag"
	"fmt"
	"os"
	"sort"
	"strings"
	"sync"
	"time"
)

// ---- observed state -----------------------------------------------------------------------

type ObsVal struct {
	Ty    string
	S     []byte
	L     [][]byte
	H     map[string]string
	M     map[string]bool
	ExpMs int64 // -1: no expiry
	Note  string
}

type ObsState map[int]map[string]*ObsVal

func (v *ObsVal) String() string {
	var b strings.Builder
	b.WriteString(v.Ty)
	switch v.Ty {
	case "string":
		fmt.Fprintf(&b, " %q", v.S)
	case "list":
		b.WriteString(" [")
		for i, e := range v.L {
			if i > 0 {
				b.WriteByte(' ')
			}
			fmt.Fprintf(&b, "%q", e)
		}
		b.WriteString("]")
	case "hash":
		ks := []string{}
		for k := range v.H {
			ks = append(ks, k)
		}
		sort.Strings(ks)
		b.WriteString(" {")
		for i, k := range ks {
			if i > 0 {
				b.WriteByte(' ')
			}
			fmt.Fprintf(&b, "%q:%q", k, v.H[k])
		}
		b.WriteString("}")
	case "set":
		ks := []string{}
		for k := range v.M {
			ks = append(ks, k)
		}
		sort.Strings(ks)
		b.WriteString(" {")
		for i, k := range ks {
			if i > 0 {
				b.WriteByte(' ')
			}
			fmt.Fprintf(&b, "%q", k)
		}
		b.WriteString("}")
	}
	if v.ExpMs >= 0 {
		fmt.Fprintf(&b, " exp=%d", v.ExpMs)
	}
	if v.Note != "" {
		b.WriteString(" !" + v.Note)
	}
	return b.String()
}

func (s ObsState) String() string {
	var b strings.Builder
	ids := []int{}
	for i := range s {
		ids = append(ids, i)
	}
	sort.Ints(ids)
	for _, i := range ids {
		ks := []string{}
		for k := range s[i] {
			ks = append(ks, k)
		}
		sort.Strings(ks)
		for _, k := range ks {
			fmt.Fprintf(&b, "db%d %q = %s; ", i, k, s[i][k])
		}
	}
	if b.Len() == 0 {
		return "(empty)"
	}
	return b.String()
}

// project reads the whole observable state of the given databases through an observer connection.
func project(c *Conn, dbs []int, extraKeys map[int][]string) (ObsState, error) {
	st := ObsState{}
	for _, i := range dbs {
		if r, err := c.DoS("SELECT", fmt.Sprint(i)); err != nil || r.Kind == '-' {
			if err != nil {
				return nil, err
			}
			continue
		}
		m := map[string]*ObsVal{}
		st[i] = m
		r, err := c.DoS("KEYS", "*")
		if err != nil {
			return nil, err
		}
		names := map[string]bool{}
		for _, e := range r.Elems {
			names[string(e.Str)] = true
		}
		listed := map[string]bool{}
		for k := range names {
			listed[k] = true
		}
		for _, k := range extraKeys[i] {
			names[k] = true
		}
		for k := range names {
			kb := []byte(k)
			t, err := c.Do([]byte("TYPE"), kb)
			if err != nil {
				return nil, err
			}
			ty := string(t.Str)
			if ty == "none" {
				if listed[k] {
					m[k] = &ObsVal{Ty: "none", ExpMs: -1, Note: "listed by KEYS but TYPE none"}
				}
				continue
			}
			v := &ObsVal{Ty: ty, ExpMs: -1}
			if !listed[k] {
				v.Note = "TYPE " + ty + " but not listed by KEYS"
			}
			switch ty {
			case "string":
				g, err := c.Do([]byte("GET"), kb)
				if err != nil {
					return nil, err
				}
				v.S = g.Str
				if g.Null || g.Kind != '$' {
					v.Note += " GET=" + g.String()
				}
			case "list":
				g, err := c.Do([]byte("LRANGE"), kb, []byte("0"), []byte("-1"))
				if err != nil {
					return nil, err
				}
				for _, e := range g.Elems {
					v.L = append(v.L, e.Str)
				}
				n, err := c.Do([]byte("LLEN"), kb)
				if err != nil {
					return nil, err
				}
				if n.Kind != ':' || int(n.Int) != len(v.L) {
					v.Note += fmt.Sprintf(" LLEN=%s but LRANGE has %d", n, len(v.L))
				}
				last, err := c.Do([]byte("LINDEX"), kb, []byte("-1"))
				if err != nil {
					return nil, err
				}
				if len(v.L) > 0 && (last.Null || !bytes.Equal(last.Str, v.L[len(v.L)-1])) {
					v.Note += fmt.Sprintf(" LINDEX -1=%s differs from LRANGE tail", last)
				}
			case "hash":
				g, err := c.Do([]byte("HGETALL"), kb)
				if err != nil {
					return nil, err
				}
				v.H = map[string]string{}
				for j := 0; j+1 < len(g.Elems); j += 2 {
					v.H[string(g.Elems[j].Str)] = string(g.Elems[j+1].Str)
				}
				if g.Kind == '-' {
					v.Note += " HGETALL=" + g.String()
				}
			case "set":
				g, err := c.Do([]byte("SMEMBERS"), kb)
				if err != nil {
					return nil, err
				}
				v.M = map[string]bool{}
				for _, e := range g.Elems {
					v.M[string(e.Str)] = true
				}
				if g.Kind == '-' {
					v.Note += " SMEMBERS=" + g.String()
				}
			}
			p, err := c.Do([]byte("PEXPIRETIME"), kb)
			if err != nil {
				return nil, err
			}
			if p.Kind == ':' && p.Int >= 0 {
				v.ExpMs = p.Int
			} else if p.Kind != ':' || p.Int != -1 {
				v.Note += " PEXPIRETIME=" + p.String()
			}
			m[k] = v
		}
	}
	return st, nil
}

// ---- expected state -----------------------------------------------------------------------

func entLive(v J, now int64) bool {
	e := jInt(v["exp"])
	return e == 0 || e > now
}

// compareState checks the observed state against the spec's (live part of the) expected state.
func compareState(exp J, obs ObsState, ctx *MatchCtx, dm *deadlineModes) string {
	now := jInt(exp["now"])
	want := map[int]map[string]J{}
	for _, e := range jList(exp["ents"]) {
		ent := e.(J)
		v := ent["v"].(J)
		if !entLive(v, now) {
			continue
		}
		db := int(jInt(ent["db"]))
		if want[db] == nil {
			want[db] = map[string]J{}
		}
		want[db][string(jBytes(ent["k"]))] = v
	}
	for db, m := range obs {
		for k, ov := range m {
			w, ok := want[db][k]
			if !ok {
				return fmt.Sprintf("db%d key %q: expected absent, observed %s", db, k, ov)
			}
			if d := diffVal(w, ov, ctx, dm.mode(k, jInt(w["exp"]))); d != "" {
				return fmt.Sprintf("db%d key %q: %s", db, k, d)
			}
		}
	}
	for db, m := range want {
		for k, w := range m {
			if obs[db] == nil || obs[db][k] == nil {
				return fmt.Sprintf("db%d key %q: expected %s, observed absent", db, k, expValString(w))
			}
		}
	}
	return ""
}

func expValString(w J) string {
	b, _ := json.Marshal(w)
	return string(b)
}

// deadlineModes remembers how each deadline of the expected state came about (see deadlineOk): a step
// flags the keys whose deadline it set relative to the server clock ("rel") or in whole seconds ("sec");
// the flag stays with the deadline value while later steps leave it alone or move it to another key.
type deadlineModes struct {
	byValue map[int64]string
}

func (dm *deadlineModes) note(e J) {
	post := e["post"].(J)
	flag := func(keys map[string]bool, mode string) {
		for _, en := range jList(post["ents"]) {
			ent := en.(J)
			if keys[string(jBytes(ent["k"]))] {
				if x := jInt(ent["v"].(J)["exp"]); x != 0 {
					dm.byValue[x] = mode
				}
			}
		}
	}
	flag(keySet(e["rel"]), "rel")
	flag(keySet(e["tol"]), "sec")
}

func (dm *deadlineModes) mode(key string, exp int64) string {
	if dm == nil {
		return "abs"
	}
	if m, ok := dm.byValue[exp]; ok {
		return m
	}
	return "abs"
}

func diffVal(w J, ov *ObsVal, ctx *MatchCtx, mode string) string {
	if ov.Note != "" {
		return "inconsistent observers: " + ov.Note
	}
	ty := jStr(w["ty"])
	if ty != ov.Ty {
		return fmt.Sprintf("expected type %s, observed %s", ty, ov)
	}
	switch ty {
	case "string":
		if !bytes.Equal(jBytes(w["s"]), ov.S) {
			return fmt.Sprintf("expected string %q, observed %q", jBytes(w["s"]), ov.S)
		}
	case "list":
		l := jList(w["l"])
		same := len(l) == len(ov.L)
		for i := 0; same && i < len(l); i++ {
			same = bytes.Equal(jBytes(l[i]), ov.L[i])
		}
		if !same {
			return fmt.Sprintf("expected list %s, observed %s", expValString(w), ov)
		}
	case "hash":
		h := jList(w["h"])
		same := len(h) == len(ov.H)
		for _, p := range h {
			pr := jList(p)
			if v, ok := ov.H[string(jBytes(pr[0]))]; !ok || v != string(jBytes(pr[1])) {
				same = false
			}
		}
		if !same {
			return fmt.Sprintf("expected hash %s, observed %s", expValString(w), ov)
		}
	case "set":
		m := jList(w["m"])
		same := len(m) == len(ov.M)
		for _, x := range m {
			if !ov.M[string(jBytes(x))] {
				same = false
			}
		}
		if !same {
			return fmt.Sprintf("expected set %s, observed %s", expValString(w), ov)
		}
	}
	e := jInt(w["exp"])
	if e == 0 {
		if ov.ExpMs >= 0 {
			return fmt.Sprintf("expected no expiry, observed deadline %d ms", ov.ExpMs)
		}
	} else {
		if ov.ExpMs < 0 {
			return fmt.Sprintf("expected deadline (model %d), observed no expiry", e)
		}
		if !deadlineOk(mode, ctx.absMs(e), ov.ExpMs, ctx, false) {
			return fmt.Sprintf("expected deadline %d ms (model %d, %s), observed %d ms (delta %d)", ctx.absMs(e), e, mode, ov.ExpMs, ov.ExpMs-ctx.absMs(e))
		}
	}
	return ""
}

// ---- replay -------------------------------------------------------------------------------

type StepResult struct {
	Step     int      `json:"step"`
	Status   string   `json:"status"` // ok | known | viol | crash | noreply | loadfail | error
	Dv       []string `json:"dv,omitempty"`
	Cmd      string   `json:"cmd,omitempty"`
	Expected string   `json:"expected,omitempty"`
	Observed string   `json:"observed,omitempty"`
	Detail   string   `json:"detail,omitempty"`
	Stderr   string   `json:"stderr,omitempty"`
}

type CaseResult struct {
	Id      int64        `json:"id"`
	Status  string       `json:"status"`
	Steps   int          `json:"steps"` // steps executed and compared
	Known   []StepResult `json:"known,omitempty"`
	Fail    *StepResult  `json:"fail,omitempty"`
	Changed bool         `json:"changed"` // some step changed the state or failed (non-trivial)
}

type worker struct {
	port    int
	child   *Child
	timeout time.Duration
	extra   []string
}

func (w *worker) ensureChild() error {
	if w.child != nil && w.child.Alive() {
		return nil
	}
	var err error
	for try := 0; try < 3; try++ {
		w.child, err = StartChild(w.port, w.extra...)
		if err == nil {
			return nil
		}
		time.Sleep(200 * time.Millisecond)
	}
	return err
}

func (w *worker) restart() {
	if w.child != nil {
		w.child.Kill()
		w.child = nil
	}
}

func cmdString(cmd [][]byte) string {
	var b strings.Builder
	for i, a := range cmd {
		if i > 0 {
			b.WriteByte(' ')
		}
		fmt.Fprintf(&b, "%q", a)
	}
	return b.String()
}

func jCmd(v any) [][]byte {
	l := jList(v)
	out := make([][]byte, len(l))
	for i, a := range l {
		out[i] = jBytes(a)
	}
	return out
}

func keySet(v any) map[string]bool {
	m := map[string]bool{}
	for _, k := range jList(v) {
		m[string(jBytes(k))] = true
	}
	return m
}

// loadState builds the pre-state with constructor commands on a loader connection.
func loadState(c *Conn, pre J, ctx *MatchCtx) error {
	cur := -1
	for _, e := range jList(pre["ents"]) {
		ent := e.(J)
		db := int(jInt(ent["db"]))
		if db != cur {
			if r, err := c.DoS("SELECT", fmt.Sprint(db)); err != nil || r.Kind == '-' {
				return fmt.Errorf("loader SELECT %d: %v %v", db, r, err)
			}
			cur = db
		}
		k := jBytes(ent["k"])
		v := ent["v"].(J)
		var args [][]byte
		switch jStr(v["ty"]) {
		case "string":
			args = [][]byte{[]byte("SET"), k, jBytes(v["s"])}
		case "list":
			args = [][]byte{[]byte("RPUSH"), k}
			for _, x := range jList(v["l"]) {
				args = append(args, jBytes(x))
			}
		case "hash":
			args = [][]byte{[]byte("HSET"), k}
			for _, p := range jList(v["h"]) {
				pr := jList(p)
				args = append(args, jBytes(pr[0]), jBytes(pr[1]))
			}
		case "set":
			args = [][]byte{[]byte("SADD"), k}
			for _, x := range jList(v["m"]) {
				args = append(args, jBytes(x))
			}
		}
		if r, err := c.Do(args...); err != nil || r.Kind == '-' {
			return fmt.Errorf("loader %s: %v %v", cmdString(args), r, err)
		}
		if exp := jInt(v["exp"]); exp != 0 {
			if r, err := c.Do([]byte("PEXPIREAT"), k, []byte(fmt.Sprint(ctx.absMs(exp)))); err != nil || r.Kind != ':' || r.Int != 1 {
				return fmt.Errorf("loader PEXPIREAT %q: %v %v", k, r, err)
			}
		}
	}
	return nil
}

func stateDbs(states ...J) ([]int, map[int][]string) {
	seen := map[int]bool{0: true}
	keys := map[int]map[string]bool{}
	for _, s := range states {
		if s == nil {
			continue
		}
		for _, e := range jList(s["ents"]) {
			ent := e.(J)
			db := int(jInt(ent["db"]))
			seen[db] = true
			if keys[db] == nil {
				keys[db] = map[string]bool{}
			}
			keys[db][string(jBytes(ent["k"]))] = true
		}
		for _, c := range jList(s["conn"]) {
			seen[int(jInt(c.(J)["db"]))] = true
		}
	}
	var ids []int
	for i := range seen {
		if i >= 0 && i <= 15 {
			ids = append(ids, i)
		}
	}
	sort.Ints(ids)
	extra := map[int][]string{}
	for db, m := range keys {
		for k := range m {
			extra[db] = append(extra[db], k)
		}
	}
	return ids, extra
}

func (w *worker) runCase(cs J) (res CaseResult) {
	res.Id = jInt(cs["id"])
	fail := func(step int, status, detail string) CaseResult {
		sr := StepResult{Step: step, Status: status, Detail: detail}
		if w.child != nil {
			if !w.child.Alive() {
				sr.Status = "crash"
				sr.Stderr = w.child.Stderr()
			}
		}
		res.Status = sr.Status
		res.Fail = &sr
		return res
	}
	if err := w.ensureChild(); err != nil {
		return fail(-1, "error", "cannot start emulator child: "+err.Error())
	}
	// reset: FLUSHALL on a throw-away connection, then fresh connections for everybody
	ctl, err := Dial(w.port, w.timeout)
	if err != nil {
		w.restart()
		return fail(-1, "error", "dial: "+err.Error())
	}
	if r, err := ctl.DoS("FLUSHALL"); err != nil || r.Kind != '+' {
		ctl.Close()
		w.restart()
		return fail(-1, "error", fmt.Sprintf("reset FLUSHALL: %v %v", r, err))
	}
	ctl.Close()

	pre := cs["pre"].(J)
	t0 := time.Now()
	ctx := &MatchCtx{T0: t0.UnixMilli()}
	t0 = time.UnixMilli(ctx.T0)
	obsC, err := Dial(w.port, w.timeout)
	if err != nil {
		w.restart()
		return fail(-1, "error", "dial observer: "+err.Error())
	}
	defer obsC.Close()
	conns := map[int64]*Conn{}
	defer func() {
		for _, c := range conns {
			c.Close()
		}
	}()
	for _, c := range jList(pre["conn"]) {
		cj := c.(J)
		id := jInt(cj["id"])
		cn, err := Dial(w.port, w.timeout)
		if err != nil {
			w.restart()
			return fail(-1, "error", "dial: "+err.Error())
		}
		conns[id] = cn
	}
	if err := loadState(obsC, pre, ctx); err != nil {
		st := fail(0, "loadfail", err.Error())
		if st.Status == "crash" {
			w.restart()
		}
		return st
	}
	for _, c := range jList(pre["conn"]) {
		cj := c.(J)
		cn := conns[jInt(cj["id"])]
		if db := jInt(cj["db"]); db != 0 {
			if r, err := cn.DoS("SELECT", fmt.Sprint(db)); err != nil || r.Kind != '+' {
				return fail(0, "loadfail", fmt.Sprintf("SELECT %d: %v %v", db, r, err))
			}
		}
		if jInt(cj["proto"]) == 3 {
			if r, err := cn.DoS("HELLO", "3"); err != nil || r.Kind == '-' {
				return fail(0, "loadfail", fmt.Sprintf("HELLO 3: %v %v", r, err))
			}
		}
	}
	steps := jList(cs["steps"])
	var allStates []J
	allStates = append(allStates, pre)
	for _, s := range steps {
		st := s.(J)
		allStates = append(allStates, st["ideal"].(J)["post"].(J))
		if rl, ok := st["real"].(J); ok && rl != nil {
			allStates = append(allStates, rl["post"].(J))
		}
	}
	dbs, extra := stateDbs(allStates...)
	var watchArgs []string
	for _, s := range steps {
		if jInt(s.(J)["c"]) == 0 {
			continue
		}
		if cmd := jCmd(s.(J)["cmd"]); len(cmd) > 1 && strings.EqualFold(string(cmd[0]), "WATCH") {
			for _, a := range cmd[1:] {
				watchArgs = append(watchArgs, string(a))
			}
		}
	}
	// verify the load (trusted constructors are themselves checked here)
	ctx.ElapsedMs = time.Since(t0).Milliseconds()
	ob, err := project(obsC, dbs, extra)
	if err != nil {
		st := fail(0, "loadfail", "projection after load: "+err.Error())
		w.restart()
		return st
	}
	dm := &deadlineModes{byValue: map[int64]string{}}
	ctx.Modes = dm
	if d := compareState(pre, ob, ctx, dm); d != "" {
		return fail(0, "loadfail", "state after load differs from pre-state: "+d)
	}
	prev := ob.String()
	timed := false
	for _, s := range steps {
		if jInt(s.(J)["c"]) == 0 {
			timed = true
		}
	}
	modelNow := jInt(pre["now"])
	realOk := true
	for i, s := range steps {
		st := s.(J)
		ideal := st["ideal"].(J)
		if jInt(st["c"]) == 0 {
			// "dt ms pass": sleep until the wall clock has reached the model clock (plus a small margin)
			target := t0.Add(time.Duration(jInt(ideal["post"].(J)["now"])-1000000+20) * time.Millisecond)
			if d := time.Until(target); d > 0 {
				time.Sleep(d)
			}
			modelNow = jInt(ideal["post"].(J)["now"])
			res.Steps = i + 1
			continue
		}
		// timed cases: the wall clock must not run ahead of the model clock by more than the margin the
		// deadlines of such cases keep from every observation instant
		if timed {
			lag := time.Since(t0).Milliseconds() - (modelNow - 1000000)
			if lag > 45 {
				return fail(i+1, "error", fmt.Sprintf("timing: wall clock %d ms ahead of the model clock (inconclusive)", lag))
			}
		}
		modelNow = jInt(ideal["post"].(J)["now"])
		cmd := ctx.substTime(jCmd(st["cmd"]))
		cn := conns[jInt(st["c"])]
		if cn == nil {
			return fail(i+1, "error", "case names an unknown connection")
		}
		var real J
		if rl, ok := st["real"].(J); ok {
			real = rl
		}
		rep, err := cn.Do(cmd...)
		ctx.ElapsedMs = time.Since(t0).Milliseconds()
		sr := StepResult{Step: i + 1, Cmd: cmdString(cmd)}
		if err != nil {
			time.Sleep(20 * time.Millisecond)
			sr.Status = "noreply"
			sr.Detail = "no reply: " + err.Error()
			sr.Expected = expValString(ideal["r"].(J))
			if !w.child.Alive() {
				sr.Status = "crash"
				sr.Stderr = w.child.Stderr()
			}
			// a known deviation may itself be "the server dies / never answers"
			if real != nil && jStr(real["r"].(J)["t"]) == "dead" {
				sr.Status = "known"
				for _, d := range jList(real["dv"]) {
					sr.Dv = append(sr.Dv, jStr(d))
				}
				res.Known = append(res.Known, sr)
				res.Steps = i + 1
				res.Status = "known"
				w.restart()
				return res
			}
			w.restart()
			res.Status = sr.Status
			res.Fail = &sr
			return res
		}
		ob, err := project(obsC, dbs, extra)
		if err != nil {
			sr.Status = "noreply"
			sr.Detail = "projection failed after the command: " + err.Error()
			if !w.child.Alive() {
				sr.Status = "crash"
				sr.Stderr = w.child.Stderr()
			}
			w.restart()
			res.Status = sr.Status
			res.Fail = &sr
			return res
		}
		cur := ob.String()
		if cur != prev || rep.Kind == '-' {
			res.Changed = true
		}
		prev = cur
		var sess map[int64]*SessObs
		var sessErr string
		if i == len(steps)-1 {
			sess, sessErr = observeSessions(conns, ideal["post"].(J), func() error {
				// every key of the case (states and WATCH arguments) in every database of the case
				keys := map[string]bool{}
				for _, ks := range extra {
					for _, k := range ks {
						keys[k] = true
					}
				}
				for _, k := range watchArgs {
					keys[k] = true
				}
				for _, db := range dbs {
					if r, err := obsC.DoS("SELECT", fmt.Sprint(db)); err != nil || r.Kind == '-' {
						return fmt.Errorf("SELECT %d: %v %v", db, r, err)
					}
					for k := range keys {
						if r, err := obsC.Do([]byte("SET"), []byte(k), []byte("~probe")); err != nil || r.Kind == '-' {
							return fmt.Errorf("SET %q: %v %v", k, r, err)
						}
					}
				}
				return nil
			})
		}
		check := func(e J) string {
			if !matchReply(e["r"].(J), rep, ctx) {
				return fmt.Sprintf("reply: expected %s, observed %s", expValString(e["r"].(J)), rep)
			}
			if p, ok := e["proto"]; ok {
				if d := wireTypesOk(int(jInt(p)), e["r"].(J), rep); d != "" {
					return d
				}
			}
			dm.note(e)
			if d := compareState(e["post"].(J), ob, ctx, dm); d != "" {
				return d
			}
			if i == len(steps)-1 {
				if sessErr != "" {
					return sessErr
				}
				return compareSessions(e["post"].(J), sess)
			}
			return ""
		}
		d := check(ideal)
		d2 := "-"
		if real != nil {
			d2 = check(real)
		}
		if d == "" {
			if real != nil && d2 != "" {
				realOk = false // the server did not take the deviated path here: later deviated expectations do not apply
			}
			res.Steps = i + 1
			continue
		}
		if real != nil && realOk && d2 == "" {
			sr.Status = "known"
			for _, x := range jList(real["dv"]) {
				sr.Dv = append(sr.Dv, jStr(x))
			}
			sr.Detail = d
			res.Known = append(res.Known, sr)
			res.Steps = i + 1
			// the model cannot follow the ideal continuation past a deviation: truncate here
			res.Status = "known"
			return res
		}
		sr.Status = "viol"
		sr.Detail = d
		sr.Expected = expValString(ideal["r"].(J))
		sr.Observed = rep.String() + " ; state: " + cur
		res.Status = "viol"
		res.Fail = &sr
		return res
	}
	res.Status = "ok"
	return res
}

// wireTypesOk checks the reply's wire types against the protocol the model says is in force on the
// connection: RESP2 replies use RESP2 types only; under RESP3 a field/value reply is a map.
func wireTypesOk(proto int, exp J, rep *Reply) string {
	if proto == 2 {
		var bad func(r *Reply) bool
		bad = func(r *Reply) bool {
			switch r.Kind {
			case '+', '-', ':', '$', '*':
			default:
				return true
			}
			if r.Null && r.Kind != '$' && r.Kind != '*' {
				return true
			}
			for _, e := range r.Elems {
				if bad(e) {
					return true
				}
			}
			return false
		}
		if bad(rep) {
			return fmt.Sprintf("protocol: connection is in RESP2 but the reply uses a RESP3 type: %s", rep)
		}
	}
	if proto == 3 {
		if t := jStr(exp["t"]); (t == "umap" || t == "hello") && rep.Kind != '%' {
			return fmt.Sprintf("protocol: connection is in RESP3 but a field/value reply is not a map: %s", rep)
		}
	}
	return ""
}

type SessObs struct {
	ExecNil bool // the probe transaction was aborted although every key had just been rewritten by the observer
	InMulti bool
	Db      string
	Resp    string
	Name    string
}

// observeSessions observes, for every connection of the case, whether it is inside MULTI (a MULTI probe
// replies an error iff it is; a successful probe is undone with DISCARD) and, when it is not, its selected
// database, protocol version and name through CLIENT INFO.  Destructive for watches: last step only.
// Watch probe (C09 "no watched keys after EXEC / DISCARD", C10): inside the probe MULTI the observer
// rewrites every key of the case in every database of the case (touch), then PING is queued and EXEC sent:
// a connection that watches nothing must run it; a nil reply shows a watch that was left behind.
func observeSessions(conns map[int64]*Conn, post J, touch func() error) (map[int64]*SessObs, string) {
	out := map[int64]*SessObs{}
	touched := false
	for _, c := range jList(post["conn"]) {
		cj := c.(J)
		if _, ok := cj["name"]; !ok {
			continue // single-connection family cases carry no session expectations
		}
		id := jInt(cj["id"])
		cn := conns[id]
		if cn == nil {
			continue
		}
		so := &SessObs{}
		out[id] = so
		r, err := cn.DoS("MULTI")
		if err != nil {
			return nil, fmt.Sprintf("connection %d: no reply to the MULTI probe: %v", id, err)
		}
		if r.Kind == '-' {
			so.InMulti = true
			continue
		}
		if !touched {
			if err := touch(); err != nil {
				return nil, "watch probe: " + err.Error()
			}
			touched = true
		}
		if r, err := cn.DoS("PING"); err != nil || r.Kind != '+' || string(r.Str) != "QUEUED" {
			return nil, fmt.Sprintf("connection %d: PING inside the probe MULTI replied %v %v", id, r, err)
		}
		r, err = cn.DoS("EXEC")
		if err != nil || (r.Kind != '*' && !r.Null) {
			return nil, fmt.Sprintf("connection %d: EXEC of the probe transaction replied %v %v", id, r, err)
		}
		so.ExecNil = r.Null
		info, err := cn.DoS("CLIENT", "INFO")
		if err != nil || info.Null || (info.Kind != '$' && info.Kind != '=' && info.Kind != '+') {
			return nil, fmt.Sprintf("connection %d: CLIENT INFO replied %v %v", id, info, err)
		}
		fields := map[string]string{}
		for _, kv := range strings.Fields(string(info.Str)) {
			if i := strings.IndexByte(kv, '='); i > 0 {
				fields[kv[:i]] = kv[i+1:]
			}
		}
		so.Db, so.Resp, so.Name = fields["db"], fields["resp"], fields["name"]
	}
	return out, ""
}

func compareSessions(post J, obs map[int64]*SessObs) string {
	for _, c := range jList(post["conn"]) {
		cj := c.(J)
		id := jInt(cj["id"])
		so := obs[id]
		if so == nil {
			continue
		}
		wantMulti := jStr(cj["multi"]) != "off"
		if wantMulti != so.InMulti {
			return fmt.Sprintf("connection %d: expected MULTI state %q, observed inside-MULTI=%v", id, jStr(cj["multi"]), so.InMulti)
		}
		if so.InMulti {
			continue
		}
		if nw, ok := cj["nwatch"]; ok && jInt(nw) == 0 && so.ExecNil {
			return fmt.Sprintf("connection %d: expected no watched keys, but MULTI / PING / EXEC replied nil after the observer rewrote every key: a watch was left behind", id)
		}
		if so.Db != fmt.Sprint(jInt(cj["db"])) {
			return fmt.Sprintf("connection %d: expected selected db %d, CLIENT INFO says db=%s", id, jInt(cj["db"]), so.Db)
		}
		if so.Resp != fmt.Sprint(jInt(cj["proto"])) {
			return fmt.Sprintf("connection %d: expected protocol %d, CLIENT INFO says resp=%s", id, jInt(cj["proto"]), so.Resp)
		}
		if so.Name != string(jBytes(cj["name"])) {
			return fmt.Sprintf("connection %d: expected name %q, CLIENT INFO says name=%s", id, jBytes(cj["name"]), so.Name)
		}
	}
	return ""
}

func replayMain(args []string) {
	fs := flag.NewFlagSet("replay", flag.ExitOnError)
	in := fs.String("cases", "", "cases file (JSON lines)")
	out := fs.String("out", "", "results file (JSON lines)")
	nw := fs.Int("workers", 8, "parallel emulator children")
	basePort := fs.Int("port", 21000, "first tcp port")
	timeoutMs := fs.Int("timeout", 2000, "reply timeout in ms")
	fs.Parse(args)
	f, err := os.Open(*in)
	if err != nil {
		fmt.Fprintln(os.Stderr, err)
		os.Exit(2)
	}
	defer f.Close()
	of, err := os.Create(*out)
	if err != nil {
		fmt.Fprintln(os.Stderr, err)
		os.Exit(2)
	}
	defer of.Close()
	ow := bufio.NewWriter(of)
	defer ow.Flush()
	var omu sync.Mutex
	jobs := make(chan J, 256)
	var wg sync.WaitGroup
	for i := 0; i < *nw; i++ {
		wg.Add(1)
		go func(i int) {
			defer wg.Done()
			w := &worker{port: *basePort + i, timeout: time.Duration(*timeoutMs) * time.Millisecond}
			defer w.restart()
			for cs := range jobs {
				r := w.runCase(cs)
				// a timed case in which the wall clock ran ahead of the model clock (a slow machine, a busy moment)
				// says nothing: it is run again, and set aside (status skip) if that keeps happening
				// (other errors are hiccups of the infrastructure - a child that did not come up, a port still in use -
				// and are retried as well; if they persist they stay errors: exit 2)
				for try := 0; try < 3 && r.Status == "error"; try++ {
					time.Sleep(50 * time.Millisecond)
					r = w.runCase(cs)
				}
				if r.Status == "error" && r.Fail != nil && strings.HasPrefix(r.Fail.Detail, "timing:") {
					r.Status = "skip"
				}
				b, _ := json.Marshal(r)
				omu.Lock()
				ow.Write(b)
				ow.WriteByte('\n')
				omu.Unlock()
			}
		}(i)
	}
	sc := bufio.NewScanner(f)
	sc.Buffer(make([]byte, 1<<20), 1<<26)
	n := 0
	for sc.Scan() {
		var cs J
		if err := json.Unmarshal(sc.Bytes(), &cs); err != nil {
			fmt.Fprintln(os.Stderr, "bad case line:", err)
			os.Exit(2)
		}
		jobs <- cs
		n++
	}
	close(jobs)
	wg.Wait()
	fmt.Fprintf(os.Stderr, "replayed %d cases\n", n)
}
