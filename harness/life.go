package main

import (
	"encoding/json"
	"fmt"
	"net"
	"os"
	"strings"
	"time"

	"github.com/jimsnab/go-lane"
	redisemu "github.com/jimsnab/go-redisemu"
)

// E7 (C20): lifecycle scenarios of Lifecycle.tla executed against the public API inside this (child)
// process: NewEmulator / Start / Close, clients in various activities at the moment of termination,
// restart on the same port, and an isolation epilogue with two instances alive.
// usage: verifh lifehost <port> <scenario json>      prints one JSON object with the observations

type lifeObs struct {
	Steps []J `json:"steps"`
	Iso   J   `json:"iso,omitempty"`
}

func lifeHostMain(args []string) {
	var port int
	fmt.Sscan(args[0], &port)
	var scenario []J
	if err := json.Unmarshal([]byte(args[1]), &scenario); err != nil {
		fmt.Println(`{"error":"bad scenario"}`)
		os.Exit(2)
	}
	obs := lifeObs{}
	emus := map[int64]*redisemu.RedisEmu{}
	quits := map[int64]chan struct{}{}
	conns := map[int64]*Conn{}
	acts := map[int64]string{}
	owner := map[int64]int64{}
	onPort := map[int64]int64{} // port slot -> running instance
	portOf := func(st J) int {
		if p, ok := st["p"]; ok {
			return port + int(jInt(p)) - 1
		}
		return port
	}
	slotOf := func(st J) int64 {
		if p, ok := st["p"]; ok {
			return jInt(p)
		}
		return 1
	}
	out := func() {
		b, _ := json.Marshal(obs)
		fmt.Println(string(b))
	}
	for _, st := range scenario {
		o := J{"a": st["a"]}
		switch jStr(st["a"]) {
		case "start":
			i := jInt(st["i"])
			quits[i] = make(chan struct{})
			emu, err := redisemu.NewEmulator(lane.NewNullLane(nil), portOf(st), "127.0.0.1", "", quits[i])
			if err != nil {
				o["error"] = err.Error()
				break
			}
			emus[i] = emu
			o["i"] = i
			obs.Steps = append(obs.Steps, J{"a": "starting", "i": i})
			out() // if Start() cannot listen it calls os.Exit(1): the parent then sees this line last
			emu.Start()
			obs.Steps = obs.Steps[:len(obs.Steps)-1]
			onPort[slotOf(st)] = i
			// the successor must be empty
			if c, err := Dial(portOf(st), time.Second); err == nil {
				if r, err := c.DoS("DBSIZE"); err == nil && r.Kind == ':' {
					o["dbsize"] = r.Int
				} else {
					o["dbsize_err"] = fmt.Sprint(r, err)
				}
				c.Close()
			} else {
				o["dial_err"] = err.Error()
			}
		case "connect":
			c := jInt(st["c"])
			o["c"] = c
			cn, err := Dial(portOf(st), time.Second)
			if err != nil {
				o["dial_err"] = err.Error()
				break
			}
			conns[c] = cn
			owner[c] = onPort[slotOf(st)]
			acts[c] = jStr(st["act"])
			if r, err := cn.DoS("SET", fmt.Sprintf("key%d", c), fmt.Sprintf("v%d", c)); err != nil || r.Kind != '+' {
				o["set_err"] = fmt.Sprint(r, err)
			}
			switch acts[c] {
			case "midpipe":
				cn.c.Write([]byte(fmt.Sprintf("*2\r\n$3\r\nGET\r\n$4\r\nke")))
			case "multi":
				cn.DoS("MULTI")
				cn.DoS("SET", "q", "1")
			case "blocked":
				cn.Send([][]byte{[]byte("BLPOP"), []byte("nolist"), []byte("0")})
			}
			time.Sleep(5 * time.Millisecond)
		case "close", "quit":
			i := jInt(st["i"])
			o["i"] = i
			done := make(chan struct{})
			t0 := time.Now()
			if jStr(st["a"]) == "quit" {
				// termination through the quit channel given to NewEmulator
				go func() { close(quits[i]); emus[i].WaitForTermination(); close(done) }()
			} else {
				go func() { emus[i].Close(); close(done) }()
			}
			select {
			case <-done:
				o["returned"] = true
			case <-time.After(2 * time.Second):
				o["returned"] = false
			}
			o["ms"] = time.Since(t0).Milliseconds()
			myPort := port
			for slot, inst := range onPort {
				if inst == i {
					myPort = port + int(slot) - 1
					delete(onPort, slot)
				}
			}
			// the connections of the OTHER instances must not notice anything
			others := []J{}
			for c, cn := range conns {
				if owner[c] == i {
					continue
				}
				p := J{"c": c, "act": acts[c], "of": owner[c]}
				switch acts[c] {
				case "idle":
					if r, err := cn.DoS("PING"); err == nil && r.Kind == '+' {
						p["alive"] = true
					} else {
						p["alive"] = false
						p["detail"] = fmt.Sprint(r, err)
					}
				case "multi":
					if r, err := cn.DoS("PING"); err == nil && string(r.Str) == "QUEUED" {
						p["alive"] = true
					} else {
						p["alive"] = false
						p["detail"] = fmt.Sprint(r, err)
					}
				default:
					// blocked / mid-pipeline: nothing may arrive, and the socket must stay open
					_, err := cn.ReadT(150 * time.Millisecond)
					p["alive"] = err != nil && isTimeout(err)
					if err != nil && !isTimeout(err) {
						p["detail"] = err.Error()
					}
				}
				others = append(others, p)
			}
			o["other_conns"] = others
			// what can the old connections still do?
			probes := []J{}
			for c, cn := range conns {
				if owner[c] != i {
					continue
				}
				p := J{"c": c, "act": acts[c]}
				var rep *Reply
				var err error
				switch acts[c] {
				case "idle":
					rep, err = cn.DoS("GET", fmt.Sprintf("key%d", c))
				case "midpipe":
					cn.c.SetWriteDeadline(time.Now().Add(500 * time.Millisecond))
					_, err = cn.c.Write([]byte(fmt.Sprintf("y%d\r\n", c)))
					if err == nil {
						rep, err = cn.ReadT(500 * time.Millisecond)
					}
				case "multi":
					rep, err = cn.DoS("EXEC")
				case "blocked":
					rep, err = cn.ReadT(500 * time.Millisecond)
				}
				switch {
				case err == nil:
					p["outcome"] = "served"
					p["reply"] = rep.String()
				case isTimeout(err):
					p["outcome"] = "open-silent"
				default:
					p["outcome"] = "closed"
				}
				cn.Close()
				delete(conns, c)
				probes = append(probes, p)
			}
			o["old_conns"] = probes
			if c, err := net.DialTimeout("tcp", fmt.Sprintf("127.0.0.1:%d", myPort), 500*time.Millisecond); err == nil {
				c.Close()
				o["port_still_accepts"] = true
			} else {
				o["port_still_accepts"] = false
			}
		}
		obs.Steps = append(obs.Steps, o)
	}
	// isolation epilogue: two instances alive in this process
	iso := J{}
	a, _ := redisemu.NewEmulator(lane.NewNullLane(nil), port+2, "127.0.0.1", "", nil)
	b, _ := redisemu.NewEmulator(lane.NewNullLane(nil), port+3, "127.0.0.1", "", nil)
	obs.Steps = append(obs.Steps, J{"a": "starting", "i": "iso"})
	out()
	a.Start()
	b.Start()
	obs.Steps = obs.Steps[:len(obs.Steps)-1]
	ca, err1 := Dial(port+2, time.Second)
	cb, err2 := Dial(port+3, time.Second)
	if err1 == nil && err2 == nil {
		ca.DoS("SET", "shared", "A")
		if r, err := cb.DoS("GET", "shared"); err == nil {
			iso["b_sees_a_data"] = !r.Null
		}
		if r, err := ca.DoS("CLIENT", "LIST"); err == nil {
			iso["a_client_list_lines"] = strings.Count(string(r.Str), "id=")
		}
		idb, _ := cb.DoS("CLIENT", "ID")
		if idb != nil {
			r, err := ca.DoS("CLIENT", "KILL", "ID", fmt.Sprint(idb.Int))
			iso["kill_reply"] = fmt.Sprint(r, err)
			time.Sleep(20 * time.Millisecond)
			if r2, err := cb.DoS("PING"); err == nil && r2.Kind == '+' {
				iso["b_conn_survives_kill_from_a"] = true
			} else {
				iso["b_conn_survives_kill_from_a"] = false
			}
		}
		ca.Close()
		cb.Close()
	} else {
		iso["error"] = fmt.Sprint(err1, err2)
	}
	obs.Iso = iso
	out()
	os.Exit(0)
}

func isTimeout(err error) bool {
	ne, ok := err.(net.Error)
	return ok && ne.Timeout()
}

func init() { engines["lifehost"] = lifeHostMain }
