//go:build verif

package main

import (
	"fmt"
	"io"
	"os"
	"path/filepath"
	"strings"
	"sync"

	redisemu "github.com/jimsnab/go-redisemu"
)

// The verif-tagged hook points of the emulator are wired here.
//
//   save.*  (snapshot writer): with -savestages <dir> every stage copies the persist files as they are on
//           disk at that instant into <dir>/<n>-<stage>/ - the image a crash at that point would leave.
//   blk.*   (block/wake loop): gates controlled over the child's stdin, see sched.go.

var saveStagesDir string
var persistBase string
var stageMu sync.Mutex
var stageN int

func copyFile(src, dst string) error {
	in, err := os.Open(src)
	if err != nil {
		return err
	}
	defer in.Close()
	out, err := os.Create(dst)
	if err != nil {
		return err
	}
	defer out.Close()
	_, err = io.Copy(out, in)
	return err
}

func snapshotStage(point string) {
	stageMu.Lock()
	defer stageMu.Unlock()
	stageN++
	d := filepath.Join(saveStagesDir, fmt.Sprintf("%03d-%s", stageN, point))
	os.MkdirAll(d, 0o755)
	dir, base := filepath.Split(persistBase)
	if dir == "" {
		dir = "."
	}
	ents, _ := os.ReadDir(dir)
	for _, e := range ents {
		if !e.IsDir() && strings.HasPrefix(e.Name(), base+".db") {
			copyFile(filepath.Join(dir, e.Name()), filepath.Join(d, e.Name()))
		}
	}
}

func installVerifHooks() {
	redisemu.VerifHook = func(point string, id int64, arg string) {
		if strings.HasPrefix(point, "save.") {
			if saveStagesDir != "" {
				snapshotStage(point)
			}
			return
		}
		if strings.HasPrefix(point, "blk.") || strings.HasPrefix(point, "ds.") {
			gatePoint(point, id)
		}
	}
}
