//go:build verif

package main

func installVerifHooks() {}
