package main

import (
	"bytes"
	"fmt"
	"math"
	"sort"
	"strconv"
	"strings"
)

type J = map[string]any

func jBytes(v any) []byte {
	switch a := v.(type) {
	case []any:
		b := make([]byte, len(a))
		for i, x := range a {
			b[i] = byte(int(x.(float64)))
		}
		return b
	case string:
		return []byte(a)
	case nil:
		return nil
	}
	panic(fmt.Sprintf("jBytes: unexpected %T", v))
}

func jList(v any) []any {
	if v == nil {
		return nil
	}
	return v.([]any)
}

func jInt(v any) int64 {
	switch x := v.(type) {
	case float64:
		return int64(x)
	case int64:
		return x
	case int:
		return int64(x)
	}
	panic(fmt.Sprintf("jInt: unexpected %T", v))
}

func jStr(v any) string {
	s, _ := v.(string)
	return s
}

// MatchCtx carries what time-dependent comparisons need.
type MatchCtx struct {
	T0        int64 // unix milliseconds that model time 1000000 (ms) maps to
	ElapsedMs int64 // real milliseconds since T0 when the reply was read
	Modes     *deadlineModes
}

func (m *MatchCtx) absMs(model int64) int64 { return m.T0 + model - 1000000 }

// substTime replaces the symbolic absolute-time arguments "@T:<model ms>" / "@M:<model ms>"
// by real epoch seconds / milliseconds.
func (m *MatchCtx) substTime(cmd [][]byte) [][]byte {
	out := make([][]byte, len(cmd))
	for i, a := range cmd {
		out[i] = a
		if len(a) >= 4 && a[0] == '@' && (a[1] == 'T' || a[1] == 'M') && a[2] == ':' {
			n, err := strconv.ParseInt(string(a[3:]), 10, 64)
			if err != nil {
				continue
			}
			ms := m.absMs(n)
			if a[1] == 'T' {
				out[i] = []byte(strconv.FormatInt(ms/1000, 10))
			} else {
				out[i] = []byte(strconv.FormatInt(ms, 10))
			}
		}
	}
	return out
}

func bulkLike(r *Reply) bool {
	return r != nil && !r.Null && (r.Kind == '$' || r.Kind == '+' || r.Kind == '=')
}

func isArrayLike(r *Reply) bool {
	return r != nil && !r.Null && (r.Kind == '*' || r.Kind == '~' || r.Kind == '>')
}

// matchReply decides whether the observed reply is one the specification allows.
func matchReply(exp J, obs *Reply, ctx *MatchCtx) bool {
	if obs == nil {
		return false
	}
	switch jStr(exp["t"]) {
	case "any":
		return obs.Kind != '-'
	case "nil":
		return obs.Null
	case "int":
		return !obs.Null && obs.Kind == ':' && obs.Int == jInt(exp["n"])
	case "intd":
		return !obs.Null && obs.Kind == ':' && strconv.FormatInt(obs.Int, 10) == string(jBytes(exp["d"]))
	case "bulk":
		return !obs.Null && obs.Kind == '$' && bytes.Equal(obs.Str, jBytes(exp["s"]))
	case "simple":
		return !obs.Null && obs.Kind == '+' && string(obs.Str) == jStr(exp["v"])
	case "err":
		if obs.Kind != '-' && obs.Kind != '!' {
			return false
		}
		code := strings.SplitN(string(obs.Str), " ", 2)[0]
		want := jStr(exp["code"])
		if want == "*" {
			return true
		}
		if want == "" {
			return code == ""
		}
		for _, w := range strings.Split(want, "|") { // several error conditions apply at once: any of their codes
			if code == w {
				return true
			}
		}
		return false
	case "arr":
		a := jList(exp["a"])
		if !isArrayLike(obs) || len(a) != len(obs.Elems) {
			return false
		}
		for i := range a {
			if !matchReply(a[i].(J), obs.Elems[i], ctx) {
				return false
			}
		}
		return true
	case "uset":
		want := jList(exp["m"])
		if !isArrayLike(obs) || len(want) != len(obs.Elems) {
			return false
		}
		ws := make([]string, len(want))
		for i, w := range want {
			ws[i] = string(jBytes(w))
		}
		os := make([]string, len(obs.Elems))
		for i, e := range obs.Elems {
			if e.Null || e.Kind != '$' {
				return false
			}
			os[i] = string(e.Str)
		}
		sort.Strings(ws)
		sort.Strings(os)
		for i := range ws {
			if ws[i] != os[i] {
				return false
			}
		}
		return true
	case "ubag":
		want := jList(exp["a"])
		if !isArrayLike(obs) || len(want) != len(obs.Elems) {
			return false
		}
		ws := make([]string, len(want))
		for i, w := range want {
			ws[i] = string(jBytes(w))
		}
		os := make([]string, len(obs.Elems))
		for i, e := range obs.Elems {
			if e.Null || e.Kind != '$' {
				return false
			}
			os[i] = string(e.Str)
		}
		sort.Strings(ws)
		sort.Strings(os)
		for i := range ws {
			if ws[i] != os[i] {
				return false
			}
		}
		return true
	case "lcs":
		if obs.Null || obs.Kind != '$' || int64(len(obs.Str)) != jInt(exp["n"]) {
			return false
		}
		return isSubseq(obs.Str, jBytes(exp["a"])) && isSubseq(obs.Str, jBytes(exp["b"]))
	case "dead", "misframed":
		return false // only ever matched through the "no reply" / framing paths
	case "hello":
		// HELLO reply: a map (RESP3) or flat array (RESP2) of server properties; "proto" must be the negotiated version
		if !isArrayLike(obs) && obs.Kind != '%' {
			return false
		}
		for i := 0; i+1 < len(obs.Elems); i += 2 {
			if string(obs.Elems[i].Str) == "proto" {
				return obs.Elems[i+1].Kind == ':' && obs.Elems[i+1].Int == jInt(exp["proto"])
			}
		}
		return false
	case "umap":
		want := jList(exp["p"])
		pairs, ok := obsPairs(obs)
		if !ok || len(pairs) != len(want) {
			return false
		}
		ws := make([]string, len(want))
		for i, w := range want {
			p := jList(w)
			ws[i] = string(jBytes(p[0])) + "\x00=\x00" + string(jBytes(p[1]))
		}
		sort.Strings(ws)
		sort.Strings(pairs)
		for i := range ws {
			if ws[i] != pairs[i] {
				return false
			}
		}
		return true
	case "rand":
		set := map[string]bool{}
		for _, w := range jList(exp["m"]) {
			set[string(jBytes(w))] = true
		}
		if !isArrayLike(obs) || int64(len(obs.Elems)) != jInt(exp["n"]) {
			return false
		}
		seen := map[string]bool{}
		for _, e := range obs.Elems {
			if e.Null || e.Kind != '$' || !set[string(e.Str)] {
				return false
			}
			if exp["distinct"].(bool) && seen[string(e.Str)] {
				return false
			}
			seen[string(e.Str)] = true
		}
		return true
	case "randone":
		if obs.Null || obs.Kind != '$' {
			return false
		}
		for _, w := range jList(exp["m"]) {
			if bytes.Equal(jBytes(w), obs.Str) {
				return true
			}
		}
		return false
	case "randpairs":
		// n field/value pairs drawn from p; RESP2: flat array, RESP3: array of 2-arrays
		want := map[string]bool{}
		for _, w := range jList(exp["p"]) {
			p := jList(w)
			want[string(jBytes(p[0]))+"\x00=\x00"+string(jBytes(p[1]))] = true
		}
		var got []string
		if !isArrayLike(obs) {
			return false
		}
		if len(obs.Elems) > 0 && isArrayLike(obs.Elems[0]) {
			for _, e := range obs.Elems {
				if !isArrayLike(e) || len(e.Elems) != 2 || !bulkLike(e.Elems[0]) || !bulkLike(e.Elems[1]) {
					return false
				}
				got = append(got, string(e.Elems[0].Str)+"\x00=\x00"+string(e.Elems[1].Str))
			}
		} else {
			if len(obs.Elems)%2 != 0 {
				return false
			}
			for i := 0; i < len(obs.Elems); i += 2 {
				if !bulkLike(obs.Elems[i]) || !bulkLike(obs.Elems[i+1]) {
					return false
				}
				got = append(got, string(obs.Elems[i].Str)+"\x00=\x00"+string(obs.Elems[i+1].Str))
			}
		}
		if int64(len(got)) != jInt(exp["n"]) {
			return false
		}
		seen := map[string]bool{}
		for _, g := range got {
			if !want[g] {
				return false
			}
			if exp["distinct"].(bool) && seen[g] {
				return false
			}
			seen[g] = true
		}
		return true
	case "dbl":
		var txt string
		if obs.Null {
			return false
		}
		switch obs.Kind {
		case '$', '+', ',':
			txt = string(obs.Str)
		default:
			return false
		}
		a, e1 := strconv.ParseFloat(txt, 64)
		b, e2 := strconv.ParseFloat(string(jBytes(exp["d"])), 64)
		return e1 == nil && e2 == nil && (a == b || (math.IsNaN(a) && math.IsNaN(b)))
	case "ttl":
		// remaining time: model v (seconds); the real clock has advanced by at most ElapsedMs since model "now"
		if obs.Null || obs.Kind != ':' {
			return false
		}
		v := jInt(exp["v"]) // remaining model milliseconds
		if jStr(exp["unit"]) == "ms" {
			return obs.Int <= v+5 && obs.Int >= v-ctx.ElapsedMs-1500
		}
		return obs.Int <= v/1000+1 && obs.Int >= (v-ctx.ElapsedMs)/1000-2
	case "time":
		if obs.Null || obs.Kind != ':' {
			return false
		}
		want := ctx.absMs(jInt(exp["v"]))
		got := obs.Int
		if jStr(exp["unit"]) == "s" {
			got *= 1000
		}
		mode := jStr(exp["mode"])
		if mode == "abs" && ctx.Modes != nil {
			mode = ctx.Modes.mode("", jInt(exp["v"]))
		}
		return deadlineOk(mode, want, got, ctx, jStr(exp["unit"]) == "s")
	}
	panic("matchReply: unknown expectation type " + jStr(exp["t"]))
}

// deadlineOk compares an observed absolute deadline (ms) with the expected one.
// mode "abs": set by an absolute-millisecond command (exact); "sec": given in whole seconds
// (the emulator may add a sub-second part; < 1 s); "rel": relative to the server clock at
// command time, which lies between T0 and T0+elapsed.
func deadlineOk(mode string, wantMs, gotMs int64, ctx *MatchCtx, secondsUnit bool) bool {
	d := gotMs - wantMs
	switch mode {
	case "rel":
		return d >= -1002 && d <= ctx.ElapsedMs+1002
	case "sec":
		return d > -1000 && d < 1000
	default:
		if secondsUnit {
			return d > -1000 && d <= 0 // EXPIRETIME truncates a millisecond deadline
		}
		return d == 0
	}
}

func isSubseq(x, of []byte) bool {
	j := 0
	for i := 0; i < len(of) && j < len(x); i++ {
		if of[i] == x[j] {
			j++
		}
	}
	return j == len(x)
}

func obsPairs(obs *Reply) ([]string, bool) {
	if obs == nil || obs.Null {
		return nil, false
	}
	if obs.Kind != '%' && obs.Kind != '*' {
		return nil, false
	}
	if len(obs.Elems)%2 != 0 {
		return nil, false
	}
	var out []string
	for i := 0; i < len(obs.Elems); i += 2 {
		k, v := obs.Elems[i], obs.Elems[i+1]
		if !bulkLike(k) || !bulkLike(v) {
			return nil, false
		}
		out = append(out, string(k.Str)+"\x00=\x00"+string(v.Str))
	}
	return out, true
}
