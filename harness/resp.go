package main

import (
	"bufio"
	"bytes"
	"fmt"
	"io"
	"net"
	"strconv"
	"time"
)

// Reply is a parsed RESP2/RESP3 value as read from the wire.
type Reply struct {
	Kind  byte     // '+', '-', ':', '$', '*', '_', '#', ',', '(', '=', '%', '~', '>', '|', '!'
	Str   []byte   // simple / error / bulk / verbatim (incl. "txt:" prefix) / double text / big number text
	Int   int64    // ':'
	Bool  bool     // '#'
	Null  bool     // $-1, *-1 or _
	Elems []*Reply // arrays, sets, pushes; maps as k1,v1,k2,v2...
}

func (r *Reply) String() string {
	if r == nil {
		return "<none>"
	}
	if r.Null {
		return "(nil)"
	}
	switch r.Kind {
	case '+':
		return "+" + string(r.Str)
	case '-':
		return "-" + string(r.Str)
	case ':':
		return ":" + strconv.FormatInt(r.Int, 10)
	case '$':
		return fmt.Sprintf("%q", r.Str)
	case '#':
		return fmt.Sprintf("#%v", r.Bool)
	case ',', '(', '=', '!':
		return string(r.Kind) + string(r.Str)
	}
	var b bytes.Buffer
	b.WriteByte(r.Kind)
	b.WriteByte('[')
	for i, e := range r.Elems {
		if i > 0 {
			b.WriteByte(' ')
		}
		b.WriteString(e.String())
	}
	b.WriteByte(']')
	return b.String()
}

type Conn struct {
	c       net.Conn
	r       *bufio.Reader
	timeout time.Duration
}

func Dial(port int, timeout time.Duration) (*Conn, error) {
	c, err := net.DialTimeout("tcp", fmt.Sprintf("127.0.0.1:%d", port), 2*time.Second)
	if err != nil {
		return nil, err
	}
	if tc, ok := c.(*net.TCPConn); ok {
		tc.SetNoDelay(true)
	}
	return &Conn{c: c, r: bufio.NewReaderSize(c, 1<<16), timeout: timeout}, nil
}

func (c *Conn) Close() { c.c.Close() }

func EncodeCmd(args [][]byte) []byte {
	var b bytes.Buffer
	fmt.Fprintf(&b, "*%d\r\n", len(args))
	for _, a := range args {
		fmt.Fprintf(&b, "$%d\r\n", len(a))
		b.Write(a)
		b.WriteString("\r\n")
	}
	return b.Bytes()
}

func (c *Conn) Send(args [][]byte) error {
	c.c.SetWriteDeadline(time.Now().Add(c.timeout))
	_, err := c.c.Write(EncodeCmd(args))
	return err
}

func (c *Conn) Do(args ...[]byte) (*Reply, error) {
	if err := c.Send(args); err != nil {
		return nil, err
	}
	return c.Read()
}

func (c *Conn) DoS(args ...string) (*Reply, error) {
	bs := make([][]byte, len(args))
	for i, a := range args {
		bs[i] = []byte(a)
	}
	return c.Do(bs...)
}

func (c *Conn) Read() (*Reply, error) {
	return c.ReadT(c.timeout)
}

func (c *Conn) ReadT(timeout time.Duration) (*Reply, error) {
	c.c.SetReadDeadline(time.Now().Add(timeout))
	return readReply(c.r, 0)
}

func readLine(r *bufio.Reader) ([]byte, error) {
	var out []byte
	for {
		part, err := r.ReadBytes('\n')
		out = append(out, part...)
		if err != nil {
			return nil, err
		}
		if len(out) >= 2 && out[len(out)-2] == '\r' {
			return out[:len(out)-2], nil
		}
		// a bare LF inside a line: keep reading (strictness is checked elsewhere)
	}
}

func readReply(r *bufio.Reader, depth int) (*Reply, error) {
	if depth > 64 {
		return nil, fmt.Errorf("reply nesting too deep")
	}
	line, err := readLine(r)
	if err != nil {
		return nil, err
	}
	if len(line) == 0 {
		return nil, fmt.Errorf("empty reply line")
	}
	k := line[0]
	body := line[1:]
	rep := &Reply{Kind: k}
	switch k {
	case '+', '-', ',', '(':
		rep.Str = append([]byte{}, body...)
		return rep, nil
	case ':':
		n, err := strconv.ParseInt(string(body), 10, 64)
		if err != nil {
			return nil, fmt.Errorf("bad integer reply %q", line)
		}
		rep.Int = n
		return rep, nil
	case '_':
		rep.Null = true
		return rep, nil
	case '#':
		rep.Bool = string(body) == "t"
		return rep, nil
	case '$', '=', '!':
		n, err := strconv.Atoi(string(body))
		if err != nil {
			return nil, fmt.Errorf("bad bulk length %q", line)
		}
		if n < 0 {
			rep.Null = true
			return rep, nil
		}
		buf := make([]byte, n+2)
		if _, err := io.ReadFull(r, buf); err != nil {
			return nil, err
		}
		if buf[n] != '\r' || buf[n+1] != '\n' {
			return nil, fmt.Errorf("bulk not terminated by CRLF")
		}
		rep.Str = buf[:n]
		return rep, nil
	case '*', '~', '>', '%', '|':
		n, err := strconv.Atoi(string(body))
		if err != nil {
			return nil, fmt.Errorf("bad aggregate length %q", line)
		}
		if n < 0 {
			rep.Null = true
			return rep, nil
		}
		if k == '%' || k == '|' {
			n *= 2
		}
		for i := 0; i < n; i++ {
			e, err := readReply(r, depth+1)
			if err != nil {
				return nil, err
			}
			rep.Elems = append(rep.Elems, e)
		}
		return rep, nil
	}
	return nil, fmt.Errorf("unknown reply type byte %q in %q", k, line)
}
