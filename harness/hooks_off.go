//go:build !verif

package main

func installServeHooks() {}
