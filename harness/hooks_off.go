//go:build !verif

package main

func installServeHooks() {}

func setSaveStages(dir, base string) {}
func controlLine(line string)        {}
