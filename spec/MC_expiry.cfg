SPECIFICATION Spec
CONSTANTS
  OpenDev = {}
  States <- ExpStates
  CmdU <- ExpCmds
  Relevant <- AllRelevant
  Fam = "expiry"
ACTION_CONSTRAINT Emit
VIEW View
INVARIANT WellFormed
PROPERTY FailedInert
PROPERTY ExpiredIsMissing
CHECK_DEADLOCK FALSE
