SPECIFICATION TSpec
CONSTANTS
  OpenDev = {}
  States <- Multi2States
  Vocab <- Multi2Vocab
  TreeOk <- Multi2Ok
  Depth = 8
  CmdU = {}
  Relevant <- AllRelevant
  Fam = "multi2"
ACTION_CONSTRAINT TEmit
INVARIANT TWellFormed
PROPERTY SessionIsolation
PROPERTY NamespaceIsolation
PROPERTY FlushGlobal
CHECK_DEADLOCK FALSE
