SPECIFICATION WSpec
CONSTANTS
  OpenDev = {}
  States <- BmStates
  CmdU <- BmCmds
  Relevant <- AllRelevant
  Fam = "bitmaps"
  Vocab <- WVocab
  Depth = 8
  TreeOk <- AnyProg
  WalkOk <- WOk
INVARIANT WPrint
INVARIANT TWellFormed
CHECK_DEADLOCK FALSE
