-------------------- MODULE MC_lists_walk --------------------
(* Random multi-step walks of the lists family: its command universe issued by one connection from its
   bounded initial states (tlc -simulate); see MCWalk. *)
EXTENDS MC_lists, MCWalk
WVocab == VocabOf(ListCmds)
WOk(s, st) == AllRelevant(s, st[2])
=============================================================================
