INIT Init
NEXT Next
CONSTANTS
  PairFile = "pairs.ndjson"
  OpenDev = {}
CHECK_DEADLOCK FALSE
