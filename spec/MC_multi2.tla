------------------------------ MODULE MC_multi2 -----------------------------
(* C14 / C10: a WATCH belongs to the database in which the key was watched, wherever the connection is when it
   runs EXEC: connection 1 selects a database, watches a, selects a database again; connection 2 selects a
   database and writes or reads a there; connection 1 runs MULTI, SET b, EXEC.  All 16 programs. *)
EXTENDS MCTree
M2S == WithDbs(InitServer({1, 2}), (0 :> (ka :> VStr(N(0), 0))) @@ (1 :> (ka :> VStr(N(1), 0))))
Multi2States == {M2S}
Sel == {C("SELECT", <<N(0)>>), C("SELECT", <<N(1)>>)}
Multi2Vocab == {<<c, m>> : c \in {1, 2}, m \in Sel} \cup {<<1, C("WATCH", <<ka>>)>>, <<2, C("SET", <<ka, y>>)>>, <<2, C("GET", <<ka>>)>>,
                <<1, C("MULTI", <<>>)>>, <<1, C("SET", <<kb, x>>)>>, <<1, C("EXEC", <<>>)>>}
Multi2Ok(h, st) ==
    LET pos == Len(h) + 1
    IN  CASE pos \in {1, 3} -> st[1] = 1 /\ st[2] \in Sel
          [] pos = 2 -> st = <<1, C("WATCH", <<ka>>)>>
          [] pos = 4 -> st[1] = 2 /\ st[2] \in Sel
          [] pos = 5 -> st[1] = 2 /\ st[2] \notin Sel
          [] pos = 6 -> st = <<1, C("MULTI", <<>>)>>
          [] pos = 7 -> st = <<1, C("SET", <<kb, x>>)>>
          [] pos = 8 -> st = <<1, C("EXEC", <<>>)>>
          [] OTHER -> FALSE
=============================================================================
