SPECIFICATION Spec
CONSTANTS
  OpenDev = {}
  States <- StrStates
  CmdU <- StrCmds
  Relevant <- StrRelevant
  Fam = "strings"
ACTION_CONSTRAINT Emit
VIEW View
INVARIANT WellFormed
PROPERTY FailedInert
CHECK_DEADLOCK FALSE
