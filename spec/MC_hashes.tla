----------------------------- MODULE MC_hashes ------------------------------
(* Bounded model of the hash family (C04). *)
EXTENDS Universe

g == B("g")
h == B("h")
Keys == {ka, kb}
Flds == {f, g}
MaxI == B("9223372036854775807")
MinI == B("-9223372036854775808")
HashU == UNION {[F -> {x, N(7)}] : F \in (SUBSET Flds) \ {{}}}
         \cup {(f :> MaxI), (f :> MinI), (f :> B("9223372036854775806")) @@ (g :> B("-9223372036854775807")), (f :> N(-5)) @@ (g :> N(5)), (f :> B("0.5")) @@ (g :> B("-1.25")), (f :> B(""))}
ValU == {VHash(hh, 0) : hh \in HashU} \cup {VStr(x, 0), VList(<<x>>, 0)}
Dbs0 == {d \in UNION {[K -> ValU] : K \in SUBSET Keys} : kb \in DOMAIN d => d[kb].ty # "hash" \/ d[kb].h \in [Flds -> {x, N(7)}] \cup {(f :> x)}}
HashStates == {WithDb0(InitServer({1}), d) : d \in Dbs0}

\* HINCRBYFLOAT on a field holding +-2^63 is numeric accuracy (float64 vs long double), not claimed
HashRelevant(s, cmd) == ~(CmdName(cmd) = "HINCRBYFLOAT" /\ Len(cmd) >= 2 /\ cmd[2] \in DOMAIN s.dbs[0] /\ s.dbs[0][cmd[2]].ty = "hash" /\ (\E ff \in DOMAIN s.dbs[0][cmd[2]].h : Len(s.dbs[0][cmd[2]].h[ff]) > 9))
Incs == {N(1), N(-1), N(0), N(3), N(-3), N(5), N(-10), N(2), N(-2), MaxI, MinI, x, B("1.5"), B("")}
FInc == {B("0.5"), B("-0.25"), B("3"), B("0"), B("1.75"), x, B("")}

HashCmds ==
    UNION {
      {C(nm, <<k, fl, v>>) : nm \in {"HSET", "HMSET", "HSETNX", "hset", "hsetnx"}, k \in Keys, fl \in Flds \cup {h}, v \in {x, B("y")}},
      {C(nm, <<k, f, x, g, B("y")>>) : nm \in {"HSET", "HMSET"}, k \in Keys},
      {C(nm, <<k, f, x, f, B("y")>>) : nm \in {"HSET"}, k \in Keys},
      {C(nm, <<k, f, x, g>>) : nm \in {"HSET", "HMSET", "HSETNX"}, k \in Keys},
      {C(nm, <<k, fl>>) : nm \in {"HGET", "HEXISTS", "HSTRLEN", "HDEL", "HMGET", "hget"}, k \in Keys, fl \in Flds \cup {h}},
      {C(nm, <<k, f1, f2>>) : nm \in {"HDEL", "HMGET"}, k \in Keys, f1 \in Flds \cup {h}, f2 \in Flds \cup {h}},
      {C(nm, <<k>>) : nm \in {"HGETALL", "HKEYS", "HVALS", "HLEN", "HRANDFIELD", "hgetall"}, k \in Keys},
      {C("HINCRBY", <<k, fl, i>>) : k \in {ka}, fl \in Flds \cup {h}, i \in Incs},
      {C("HINCRBY", <<kb, f, i>>) : i \in {N(1), N(-1), x}},
      {C("HINCRBYFLOAT", <<k, fl, i>>) : k \in {ka}, fl \in Flds \cup {h}, i \in FInc},
      {C("HINCRBYFLOAT", <<kb, f, B("0.5")>>)},
      {C("HRANDFIELD", <<k, N(c)>>) : k \in Keys, c \in -3..3},
      {C("HRANDFIELD", <<k, N(c), B("WITHVALUES")>>) : k \in Keys, c \in {-2, -1, 0, 1, 2, 3}},
      {C("HRANDFIELD", <<ka, N(1), B("withvalues")>>), C("HRANDFIELD", <<ka, N(1), B("BOGUS")>>), C("HRANDFIELD", <<ka, x>>),
       C("HRANDFIELD", <<ka, N(1), B("WITHVALUES"), x>>)},
      {C(nm, <<>>) : nm \in {"HSET", "HGET", "HGETALL", "HDEL", "HINCRBY", "HRANDFIELD"}},
      {C("HSET", <<ka>>), C("HSET", <<ka, f>>), C("HGET", <<ka>>), C("HGET", <<ka, f, g>>), C("HGETALL", <<ka, kb>>), C("HDEL", <<ka>>),
       C("HINCRBY", <<ka, f>>), C("HINCRBYFLOAT", <<ka, f>>), C("HLEN", <<>>), C("HSTRLEN", <<ka>>), C("HEXISTS", <<ka>>), C("HMGET", <<ka>>)}
    }
=============================================================================
