------------------------------- MODULE MCTree -------------------------------
(***************************************************************************)
(* Exhaustive enumeration of multi-step, multi-connection programs: the     *)
(* tree of all step sequences over Vocab of length Depth that TreeOk        *)
(* admits, from every initial state, under both readings of the spec.       *)
(* A step is <<connection, command vector>> or <<0, <<dt>>>> (dt ms pass).  *)
(* The history is part of the state, so every path is a distinct behaviour; *)
(* each leaf is printed as one replay case (its prefixes are checked as the *)
(* first steps of that case).  TreeOk(h, st) prunes on the program only,    *)
(* never on the state, so that both readings enumerate the same programs.   *)
(***************************************************************************)
EXTENDS Universe
CONSTANTS Vocab, Depth, TreeOk(_, _)
VARIABLES hist
tvars == <<S, hist, devs, step, op>>

StepOf(s, st) ==
    IF st[1] = 0 THEN [S |-> Tick(s, st[2][1]), r |-> [t |-> "tick"], dv |-> {}, rel |-> {}, tol |-> {}]
    ELSE Apply(s, st[1], st[2])

ConnFullJ(cn) == {[id |-> c, db |-> cn[c].db, proto |-> cn[c].proto, multi |-> cn[c].multi, name |-> cn[c].name,
                   qlen |-> Len(cn[c].queue), nwatch |-> Cardinality(cn[c].watch)] : c \in DOMAIN cn}
StateFullJ(s) == [ents |-> EntsJ(s.dbs), now |-> s.now, conn |-> ConnFullJ(s.conn)]

TInit == /\ S \in States
         /\ hist = <<>>
         /\ devs \in {{}, OpenDev}
         /\ step = 0
         /\ op = [pre |-> StateFullJ(S)]

TNext == /\ Len(hist) < Depth
         /\ \E st \in Vocab :
              /\ TreeOk(hist, st)
              /\ LET res == StepOf(S, st)
                 IN  /\ S' = res.S
                     /\ hist' = Append(hist, [c |-> st[1], cmd |-> st[2], r |-> res.r, post |-> StateFullJ(res.S),
                                              dv |-> res.dv, rel |-> res.rel, tol |-> res.tol,
                                              proto |-> IF st[1] = 0 THEN 0 ELSE res.S.conn[st[1]].proto])
         /\ UNCHANGED <<devs, step, op>>
TSpec == TInit /\ [][TNext]_tvars

AnyProg(h, st) == TRUE
TEmit == (Len(hist') = Depth) => PrintT(ToJson([fam |-> Fam, dev |-> devs # {}, pre |-> op.pre, steps |-> hist']))

-----------------------------------------------------------------------------
(* Properties of the ideal reading, checked on every step of every program *)
LastStep == hist'[Len(hist')]
TWellFormed == devs = {} => \A i \in DOMAIN S.dbs : WFDb(S.dbs[i])

\* C09: a queued command has no effect: while a connection is inside MULTI, its non-control commands
\* change nothing but its own queue / dirty flag
QueuedInvisible ==
    [][(devs = {} /\ LastStep.c # 0 /\ S.conn[LastStep.c].multi # "off" /\ CmdName(LastStep.cmd) \notin {"EXEC", "DISCARD", "MULTI", "WATCH"})
       => (S'.dbs = S.dbs /\ \A c \in DOMAIN S.conn : c # LastStep.c => S'.conn[c] = S.conn[c])]_tvars

\* C09: after EXEC (successful or aborted) or DISCARD the connection is back to normal with nothing queued or watched
ResetAfterExec ==
    [][(devs = {} /\ LastStep.c # 0 /\ S.conn[LastStep.c].multi # "off" /\ CmdName(LastStep.cmd) \in {"EXEC", "DISCARD"} /\ Len(LastStep.cmd) = 1)
       => (S'.conn[LastStep.c].multi = "off" /\ S'.conn[LastStep.c].queue = <<>> /\ S'.conn[LastStep.c].watch = {})]_tvars

\* C09: EXEC is all-or-nothing: it either replies an array with one reply per queued command or changes no database
ExecAllOrNothing ==
    [][(devs = {} /\ LastStep.c # 0 /\ CmdName(LastStep.cmd) = "EXEC")
       => ((LastStep.r.t = "arr" /\ Len(LastStep.r.a) = Len(S.conn[LastStep.c].queue)) \/ S'.dbs = S.dbs)]_tvars

\* C14: a command never changes another connection's session (apart from flagging its watch) ...
SessionIsolation ==
    [][(devs = {} /\ LastStep.c # 0) =>
        \A c \in DOMAIN S.conn : c # LastStep.c => [S'.conn[c] EXCEPT !.cas = FALSE] = [S.conn[c] EXCEPT !.cas = FALSE]]_tvars
\* ... and only touches the database its connection has selected (FLUSHALL and EXEC of queued SELECTs excepted)
NamespaceIsolation ==
    [][(devs = {} /\ LastStep.c # 0 /\ CmdName(LastStep.cmd) \notin {"FLUSHALL", "EXEC"}) =>
        \A i \in DbIds : i # S.conn[LastStep.c].db => S'.dbs[i] = S.dbs[i]]_tvars
\* C14: a flush empties exactly the caller's database / all databases, for everybody
FlushGlobal ==
    [][(devs = {} /\ LastStep.c # 0 /\ S.conn[LastStep.c].multi = "off" /\ Len(LastStep.cmd) = 1) =>
        /\ (CmdName(LastStep.cmd) = "FLUSHDB" => S'.dbs = [S.dbs EXCEPT ![S.conn[LastStep.c].db] = EmptyDb])
        /\ (CmdName(LastStep.cmd) = "FLUSHALL" => S'.dbs = EmptyDbs)]_tvars

\* C10: EXEC runs its queue iff no watched key was modified since it was WATCHed (cas mirrors "modified")
WatchIff ==
    [][(devs = {} /\ LastStep.c # 0 /\ CmdName(LastStep.cmd) = "EXEC" /\ Len(LastStep.cmd) = 1 /\ S.conn[LastStep.c].multi = "on")
       => ((LastStep.r.t = "nil") <=> S.conn[LastStep.c].cas)]_tvars

=============================================================================
