SPECIFICATION WSpec
CONSTANTS
  OpenDev = {}
  States <- KsStates
  CmdU <- KsCmds
  Relevant <- AllRelevant
  Fam = "keyspace"
  Vocab <- WVocab
  Depth = 8
  TreeOk <- AnyProg
  WalkOk <- WOk
INVARIANT WPrint
INVARIANT TWellFormed
CHECK_DEADLOCK FALSE
