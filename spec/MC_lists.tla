------------------------------ MODULE MC_lists ------------------------------
(* Bounded model of the list family (C03): every list state x every command instance. *)
EXTENDS Universe

Keys == {ka, kb}
Elems == {x, y}
ListsUpTo(n) == UNION {[1..m -> Elems] : m \in 1..n}
ValU == {VList(l, 0) : l \in ListsUpTo(3)} \cup {VStr(x, 0), VSet({x}, 0)}
Dbs0 == UNION {[K -> ValU] : K \in SUBSET Keys}
ListStates == {WithDb0(InitServer({1}), d) : d \in Dbs0}

Idx == {N(i) : i \in -5..5} \cup {B("2147483648"), B("-2147483649"), B("9223372036854775807"), B("-9223372036854775808")}
IdxS == {N(i) : i \in {-4, -2, -1, 0, 1, 3}} \cup {B("9223372036854775807"), B("-9223372036854775808")}
Cnt == {N(i) : i \in -2..4}

ListCmds ==
    UNION {
      {C(nm, <<k, e>>) : nm \in {"LPUSH", "RPUSH", "LPUSHX", "RPUSHX"}, k \in Keys, e \in Elems},
      {C(nm, <<k, x, y>>) : nm \in {"LPUSH", "RPUSH", "lpushx", "RPushX"}, k \in Keys},
      {C(nm, <<k>>) : nm \in {"LPOP", "RPOP", "LLEN", "lpop"}, k \in Keys},
      {C(nm, <<k, c>>) : nm \in {"LPOP", "RPOP"}, k \in Keys, c \in Cnt},
      {C("LINDEX", <<k, i>>) : k \in Keys, i \in Idx},
      {C("LRANGE", <<k, i, j>>) : k \in {ka}, i \in IdxS, j \in IdxS},
      {C("LRANGE", <<kb, N(0), N(-1)>>)},
      {C("LSET", <<k, i, y>>) : k \in Keys, i \in Idx},
      {C("LINSERT", <<k, w, p, e>>) : k \in Keys, w \in {B("BEFORE"), B("after"), B("AFTER"), B("middle")}, p \in Elems, e \in Elems},
      {C("LREM", <<k, c, e>>) : k \in Keys, c \in Cnt, e \in Elems},
      {C("LTRIM", <<k, i, j>>) : k \in {ka}, i \in IdxS, j \in IdxS},
      {C("LTRIM", <<kb, N(1), N(-1)>>)},
      {C("LPOS", <<k, e>>) : k \in Keys, e \in Elems},
      {C("LPOS", <<k, e, B("RANK"), r>>) : k \in Keys, e \in {x}, r \in {N(i) : i \in -3..3}},
      {C("LPOS", <<k, e, B("COUNT"), c>>) : k \in Keys, e \in {x}, c \in Cnt},
      {C("LPOS", <<k, e, B("rank"), r, B("COUNT"), c, B("MAXLEN"), m>>) : k \in {ka}, e \in {x}, r \in {N(-2), N(-1), N(1), N(2)}, c \in {N(0), N(1), N(2)}, m \in {N(-1), N(0), N(1), N(2)}},
      {C("LPOS", <<k, e, B("MAXLEN"), m, B("RANK"), r>>) : k \in {ka}, e \in {x}, r \in {N(-1), N(1)}, m \in {N(0), N(2)}},
      {C("LMOVE", <<s, d, fr, t>>) : s \in Keys, d \in Keys, fr \in {B("LEFT"), B("right")}, t \in {B("LEFT"), B("RIGHT")}},
      {C("LMOVE", <<ka, kb, B("UP"), B("LEFT")>>)},
      {C("RPOPLPUSH", <<s, d>>) : s \in Keys, d \in Keys},
      {C("LMPOP", <<N(1), k, w>>) : k \in Keys, w \in {B("LEFT"), B("RIGHT")}},
      {C("LMPOP", <<N(2), k1, k2, w, B("COUNT"), c>>) : k1 \in Keys, k2 \in Keys, w \in {B("LEFT"), B("right")}, c \in {N(0), N(1), N(2), N(5)}},
      {C("LMPOP", <<N(n), ka, kb, B("LEFT")>>) : n \in {0, 1, 3}},
      {C(nm, <<>>) : nm \in {"LPUSH", "LPOP", "LLEN", "LRANGE", "LMOVE", "NOSUCHCMD"}},
      {C("LLEN", <<ka, kb>>), C("LPUSH", <<ka>>), C("LINDEX", <<ka, x>>), C("LRANGE", <<ka, N(0)>>), C("LSET", <<ka, x, x>>), C("LPOP", <<ka, N(1), N(1)>>)}
    }
=============================================================================
