------------------------------- MODULE MCBlock ------------------------------
(* Tree enumeration (as MCTree) for programs with blocking commands: steps go through BApply / BTick,
   the history records the deferred replies and which connections are left blocked. *)
EXTENDS Blocking, Json
CONSTANTS OpenDev, BStates, BVocab, BDepth, BTreeOk(_, _), Fam
VARIABLES S, hist, pre
bvars == <<S, hist, pre, devs>>

ValJ(v) == IF v.ty = "hash" THEN [ty |-> "hash", exp |-> v.exp, h |-> {<<f, v.h[f]>> : f \in DOMAIN v.h}] ELSE v
EntsJ(dbs) == UNION {{[db |-> i, k |-> k, v |-> ValJ(dbs[i][k])] : k \in DOMAIN dbs[i]} : i \in DOMAIN dbs}
BConnJ(cn) == {[id |-> c, db |-> cn[c].db, proto |-> cn[c].proto, multi |-> cn[c].multi,
                blocked |-> cn[c].blk.on /\ ~cn[c].closed, parked |-> cn[c].parked, closed |-> cn[c].closed] : c \in DOMAIN cn}
BStateJ(s) == [ents |-> EntsJ(s.dbs), now |-> s.now, conn |-> BConnJ(s.conn)]

BStepOf(s, st) == IF st[1] = 0 THEN BTick(s, st[2][1]) ELSE BApply(s, st[1], st[2])

BInit == /\ S \in BStates /\ hist = <<>> /\ devs \in {{}, OpenDev} /\ pre = BStateJ(S)
BNext == /\ Len(hist) < BDepth
         /\ \E st \in BVocab :
              /\ BTreeOk(hist, st)
              /\ LET res == BStepOf(S, st)
                 IN  /\ res.r.t # "skip"
                     /\ S' = res.S
                     /\ hist' = Append(hist, [c |-> st[1], cmd |-> st[2], r |-> res.r, post |-> BStateJ(res.S), dv |-> res.dv,
                                              rel |-> {}, tol |-> {}, deferred |-> res.deferred])
         /\ UNCHANGED <<devs, pre>>
BSpec == BInit /\ [][BNext]_bvars
BEmit == (Len(hist') = BDepth) => PrintT(ToJson([fam |-> Fam, dev |-> devs # {}, block |-> TRUE, pre |-> pre, steps |-> hist']))

-----------------------------------------------------------------------------
(* Properties of the ideal reading *)
ListsOf(s) == [i \in DbIds |-> [k \in {q \in DOMAIN s.dbs[i] : s.dbs[i][q].ty = "list"} |-> s.dbs[i][k].l]]
\* C11: no client stays blocked (and able to act) while a list it waits on is non-empty
\* (while a client is held at a schedule point of the harness, the push that woke it serves nobody else)
NoStuckWaiter == (devs = {} /\ \A x \in DOMAIN S.conn : ~S.conn[x].parked) => \A x \in DOMAIN S.conn : ~Serviceable(S, x)
\* C12: inside MULTI/EXEC nothing blocks; a closed connection is not blocked; a blocked connection has no transaction open
BlockedIsClean == devs = {} => \A x \in DOMAIN S.conn : S.conn[x].blk.on => (~S.conn[x].closed /\ S.conn[x].multi = "off")
\* C11: exactly-once delivery: a step never serves the same connection twice
OncePerStep == [][\A j, m \in 1..Len(hist'[Len(hist')].deferred) : j # m => hist'[Len(hist')].deferred[j].c # hist'[Len(hist')].deferred[m].c]_bvars
=============================================================================
