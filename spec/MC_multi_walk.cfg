SPECIFICATION WSpec
CONSTANTS
  OpenDev = {}
  States <- MultiStates3
  Vocab <- MultiVocab3
  TreeOk <- AnyProg
  WalkOk <- AnyState
  Depth = 8
  CmdU = {}
  Relevant <- AllRelevant
  Fam = "multi"
INVARIANT WPrint
INVARIANT TWellFormed
CHECK_DEADLOCK FALSE
