------------------------------- MODULE MC_txn -------------------------------
(* C09: all transaction programs of length 4 (hence also all shorter ones, as prefixes) of
   connection 1 over {MULTI, EXEC, DISCARD, WATCH, UNWATCH, good commands, commands failing at
   run time (wrong type, not an integer), unknown command, bad arity}, interleaved with at most
   one command of connection 2 at any position. *)
EXTENDS MCTree

kl == B("l")
S0 == WithDb0(InitServer({1, 2}), (ka :> VStr(N(1), 0)) @@ (kl :> VList(<<x>>, 0)))
TxnStates == {S0}

Sym == { C("MULTI", <<>>), C("EXEC", <<>>), C("DISCARD", <<>>), C("WATCH", <<ka>>), C("UNWATCH", <<>>),
         C("INCR", <<ka>>), C("RPUSH", <<kl, y>>), C("INCR", <<kl>>), C("LPUSH", <<ka, y>>),
         C("NOSUCHCMD", <<ka>>), C("GET", <<>>), C("GET", <<ka>>) }
Other == { C("SET", <<ka, N(7)>>), C("GET", <<ka>>), C("LPOP", <<kl>>) }
TxnVocab == {<<1, s>> : s \in Sym} \cup {<<2, o>> : o \in Other}
\* at most one step of the second connection per program
TxnOk(h, st) == st[1] = 1 \/ \A i \in 1..Len(h) : h[i].c = 1
=============================================================================
