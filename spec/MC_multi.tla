------------------------------ MODULE MC_multi ------------------------------
(* C14: databases, flushes and session state across connections: all programs of length 3 of two
   connections over SELECT (valid and out-of-range indexes), FLUSHDB, FLUSHALL, DBSIZE, writes and
   reads of one key name that exists with different values in several databases, KEYS, CLIENT
   SETNAME/GETNAME and HELLO; random walks of three connections go deeper. *)
EXTENDS MCTree

S2c == WithDbs(InitServer({1, 2}), (0 :> (ka :> VStr(N(0), 0))) @@ (1 :> (ka :> VStr(N(1), 0))) @@ (15 :> (kb :> VStr(N(15), 0))))
S3c == WithDbs(InitServer({1, 2, 3}), (0 :> (ka :> VStr(N(0), 0))) @@ (1 :> (ka :> VStr(N(1), 0))) @@ (15 :> (kb :> VStr(N(15), 0))))
MultiStates == {S2c}
MultiStates3 == {S3c}

Per(c) == { C("SELECT", <<N(0)>>), C("SELECT", <<N(1)>>), C("SELECT", <<N(15)>>), C("SELECT", <<N(16)>>), C("SELECT", <<N(-1)>>),
            C("FLUSHDB", <<>>), C("FLUSHALL", <<>>), C("DBSIZE", <<>>), C("SET", <<ka, <<118, 48 + c>> >>), C("GET", <<ka>>),
            C("KEYS", <<W("*")>>), C("CLIENT", <<W("SETNAME"), <<110, 48 + c>> >>), C("CLIENT", <<W("GETNAME")>>), C("HELLO", <<N(3)>>),
            C("HELLO", <<N(2), W("SETNAME"), <<104, 48 + c>> >>) }
MultiVocab == UNION {{<<c, m>> : m \in Per(c)} : c \in {1, 2}}
MultiVocab3 == UNION {{<<c, m>> : m \in Per(c) \cup {C("SELECT", <<x>>), C("HELLO", <<N(2)>>), C("HELLO", <<N(4)>>), C("MULTI", <<>>), C("EXEC", <<>>),
                                                     C("CLIENT", <<W("SETNAME"), W("a b")>>), C("RPUSH", <<kb, y>>), C("EXISTS", <<ka, kb>>)}} : c \in {1, 2, 3}}
=============================================================================
