SPECIFICATION TSpec
CONSTANTS
  OpenDev = {}
  States <- WatchStates
  Vocab <- WatchVocab
  TreeOk <- WatchOk
  Depth = 7
  CmdU = {}
  Relevant <- AllRelevant
  Fam = "watch"
ACTION_CONSTRAINT TEmit
INVARIANT TWellFormed
PROPERTY WatchIff
PROPERTY ResetAfterExec
PROPERTY SessionIsolation
CHECK_DEADLOCK FALSE
