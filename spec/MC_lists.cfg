SPECIFICATION Spec
CONSTANTS
  OpenDev = {}
  States <- ListStates
  CmdU <- ListCmds
  Relevant <- AllRelevant
  Fam = "lists"
ACTION_CONSTRAINT Emit
VIEW View
INVARIANT WellFormed
PROPERTY FailedInert
CHECK_DEADLOCK FALSE
