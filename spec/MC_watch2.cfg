SPECIFICATION TSpec
CONSTANTS
  OpenDev = {}
  States <- W2States
  Vocab <- W2Vocab
  TreeOk <- W2Ok
  Depth = 6
  CmdU = {}
  Relevant <- AllRelevant
  Fam = "watch2"
ACTION_CONSTRAINT TEmit
INVARIANT TWellFormed
PROPERTY WatchIff
PROPERTY ResetAfterExec
PROPERTY SessionIsolation
CHECK_DEADLOCK FALSE
