------------------------------ MODULE MC_watch ------------------------------
(* C10: the program  [step] WATCH a [step] MULTI PING [step of the other connection] EXEC  on
   connection 1, with exactly one of the three free positions filled (the others are no-ops) by:
   every data command of the emulator aimed at the watched key (each type: in-place and replacing
   writes, reads, failing writes) issued by the watching or by another connection, a flush, or the
   key's deadline passing.  Expected: EXEC replies [PONG] iff the watched key was not modified. *)
EXTENDS MCTree

Now0 == 1000000
Fut == Now0 + 500000
Soon == Now0 + 150
ValA == {VStr(x, 0), VStr(N(5), 0), VList(<<x, y>>, 0), VHash((f :> x), 0), VSet({x, y}, 0), VStr(x, Fut), VList(<<x>>, Fut)}
Dbs0 == UNION {{(ka :> va) : va \in ValA}, {(ka :> va) @@ (kb :> VList(<<x>>, 0)) : va \in ValA}, {EmptyDb, (kb :> VSet({x}, 0))}}
WatchStates == {WithDb0(InitServer({1, 2}), d) : d \in Dbs0} \cup {WithDb0(InitServer({1, 2}), (ka :> VStr(x, Soon)))}

Noop == <<2, C("PING", <<>>)>>
Mods == PerKey(ka, kb) \cup {C("FLUSHDB", <<>>), C("FLUSHALL", <<>>), C("SELECT", <<N(1)>>)}
TickStep == <<0, <<300>>>>
WatchVocab == {Noop, TickStep, <<1, C("WATCH", <<ka>>)>>, <<1, C("MULTI", <<>>)>>, <<1, C("PING", <<>>)>>, <<1, C("EXEC", <<>>)>>}
              \cup {<<c, m>> : c \in {1, 2}, m \in Mods}
Free(st) == st # Noop
Used(h) == \E i \in 1..Len(h) : i \in {1, 3, 6} /\ ~(h[i].c = 2 /\ h[i].cmd = Noop[2])
\* the deadline may only pass in states that have one, and only after WATCH
WatchOk(h, st) ==
    LET pos == Len(h) + 1
    IN  CASE pos = 2 -> st = <<1, C("WATCH", <<ka>>)>>
          [] pos = 4 -> st = <<1, C("MULTI", <<>>)>>
          [] pos = 5 -> st = <<1, C("PING", <<>>)>>
          [] pos = 7 -> st = <<1, C("EXEC", <<>>)>>
          [] pos = 1 -> st = Noop \/ (st[1] # 0 /\ st[2] \in Mods)
          [] pos = 3 -> st = Noop \/ (~Used(h) /\ (st = TickStep \/ (st[1] # 0 /\ st[2] \in Mods)))
          [] pos = 6 -> st = Noop \/ (~Used(h) /\ (st = TickStep \/ (st[1] = 2 /\ st[2] \in Mods)))
          [] OTHER -> FALSE
=============================================================================
