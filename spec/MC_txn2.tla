------------------------------- MODULE MC_txn2 ------------------------------
(* C09 (and C12): blocking commands queued in MULTI: EXEC runs them in order as their non-blocking forms, one
   reply per command (a null reply when there is nothing to pop), later commands of the queue see their
   effects.  Programs: MULTI, two queued commands out of {the five blocking commands on a list with elements
   and on a missing list, a push, LLEN}, EXEC, a read - by one connection. *)
EXTENDS MCTree
kl == B("l")
ke == B("e")
kd == B("d")
T2S0 == WithDb0(InitServer({1}), (kl :> VList(<<x, y>>, 0)))
Txn2States == {T2S0}
Queued == { C("BLPOP", <<kl, N(0)>>), C("BLPOP", <<ke, N(0)>>), C("BRPOP", <<ke, kl, N(1)>>), C("BLMOVE", <<kl, kd, W("LEFT"), W("RIGHT"), N(0)>>),
            C("BLMOVE", <<ke, kd, W("LEFT"), W("RIGHT"), N(0)>>), C("BRPOPLPUSH", <<kl, kd, N(0)>>), C("BRPOPLPUSH", <<ke, kd, N(0)>>),
            C("BLMPOP", <<N(0), N(2), ke, kl, W("LEFT")>>), C("BLMPOP", <<N(0), N(1), ke, W("RIGHT"), W("COUNT"), N(2)>>),
            C("RPUSH", <<ke, x>>), C("LLEN", <<kl>>) }
Reads == { C("LRANGE", <<kl, N(0), N(-1)>>), C("LRANGE", <<kd, N(0), N(-1)>>), C("LLEN", <<ke>>) }
Txn2Vocab == {<<1, s>> : s \in Queued \cup Reads \cup {C("MULTI", <<>>), C("EXEC", <<>>)}}
Txn2Ok(h, st) == LET pos == Len(h) + 1
                 IN  CASE pos = 1 -> st[2] = C("MULTI", <<>>)
                       [] pos \in {2, 3} -> st[2] \in Queued
                       [] pos = 4 -> st[2] = C("EXEC", <<>>)
                       [] OTHER -> st[2] \in Reads
=============================================================================
