-------------------- MODULE MC_keyspace_walk --------------------
(* Random multi-step walks of the keyspace family: its command universe issued by one connection from its
   bounded initial states (tlc -simulate); see MCWalk. *)
EXTENDS MC_keyspace, MCWalk
WVocab == VocabOf(KsCmds)
WOk(s, st) == AllRelevant(s, st[2])
=============================================================================
