SPECIFICATION Spec
CONSTANTS
  OpenDev = {}
  States <- Set2States
  CmdU <- Set2Cmds
  Relevant <- AllRelevant
  Fam = "sets2"
ACTION_CONSTRAINT Emit
VIEW View
INVARIANT WellFormed
PROPERTY FailedInert
CHECK_DEADLOCK FALSE
