------------------------------ MODULE MC_multi3 -----------------------------
(* C14 / C09: SELECT and flushes queued inside MULTI take effect for the commands queued after them: MULTI, a
   command, SELECT 0/1 or a flush, a command, EXEC, and a read afterwards - by one connection, with a second
   connection looking at both databases at the end. *)
EXTENDS MCTree
M3S == WithDbs(InitServer({1, 2}), (0 :> (ka :> VStr(N(0), 0))) @@ (1 :> (ka :> VStr(N(1), 0))))
Multi3States == {M3S}
Cmd3 == {C("SET", <<ka, x>>), C("GET", <<ka>>), C("DBSIZE", <<>>), C("APPEND", <<ka, y>>)}
Switch == {C("SELECT", <<N(0)>>), C("SELECT", <<N(1)>>), C("FLUSHDB", <<>>), C("FLUSHALL", <<>>)}
Multi3Vocab == {<<1, m>> : m \in Cmd3 \cup Switch \cup {C("MULTI", <<>>), C("EXEC", <<>>)}} \cup {<<2, C("GET", <<ka>>)>>, <<2, C("SELECT", <<N(1)>>)>>}
Multi3Ok(h, st) ==
    LET pos == Len(h) + 1
    IN  CASE pos = 1 -> st = <<1, C("MULTI", <<>>)>>
          [] pos \in {2, 4} -> st[1] = 1 /\ st[2] \in Cmd3
          [] pos = 3 -> st[1] = 1 /\ st[2] \in Switch
          [] pos = 5 -> st = <<1, C("EXEC", <<>>)>>
          [] pos = 6 -> st = <<1, C("GET", <<ka>>)>>
          [] pos = 7 -> st = <<2, C("GET", <<ka>>)>>
          [] pos = 8 -> st = <<2, C("SELECT", <<N(1)>>)>>
          [] pos = 9 -> st = <<2, C("GET", <<ka>>)>>
          [] OTHER -> FALSE
=============================================================================
