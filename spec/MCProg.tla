------------------------------- MODULE MCProg -------------------------------
(***************************************************************************)
(* Given programs: every program of the file ProgFile (one JSON object per  *)
(* line: [init |-> index into States, steps |-> <<[c, cmd]>>], a command a  *)
(* sequence of byte sequences) is run through the specification exactly as  *)
(* MCWalk runs its random walks - phase A under the ideal reading, phase B  *)
(* under the open deviations - and printed as one replay case.  This is how *)
(* programs that were planned OUTSIDE the command-level model (the state    *)
(* graph of Dict.tla turned into store / remove sequences; recorded traces) *)
(* get their expected replies and states from the specification.            *)
(***************************************************************************)
EXTENDS MCWalk
CONSTANTS ProgFile
VARIABLES pi
pvars == <<S, hist, devs, step, op, pend, SR, cumdv, pi>>
Progs == ndJsonDeserialize(ProgFile)
PSteps(p) == Progs[p].steps
PStates == SetToSeq(States)

PInit == /\ pi \in 1..Len(Progs)
         /\ S = PStates[1]
         /\ hist = <<>> /\ devs = {} /\ step = 0
         /\ op = [pre |-> StateFullJ(S)]
         /\ pend = <<>> /\ SR = S /\ cumdv = {}

PPhaseA == /\ pend = <<>>
           /\ Len(hist) < Len(PSteps(pi))
           /\ LET e == PSteps(pi)[Len(hist) + 1]
                  st == <<e.c, e.cmd>>
                  res == StepOf(S, st)
              IN  /\ S' = res.S
                  /\ hist' = Append(hist, [c |-> st[1], cmd |-> st[2], r |-> res.r, post |-> StateFullJ(res.S),
                                           dv |-> res.dv, rel |-> res.rel, tol |-> res.tol, real |-> NoReal,
                                           proto |-> IF st[1] = 0 THEN 0 ELSE res.S.conn[st[1]].proto])
                  /\ pend' = IF OpenDev = {} THEN <<>> ELSE <<[st |-> st, r |-> res.r]>>
                  /\ devs' = IF OpenDev = {} THEN {} ELSE OpenDev
                  /\ SR' = IF OpenDev = {} THEN res.S ELSE SR
           /\ UNCHANGED <<step, op, cumdv, pi>>
PFinish == /\ pend = <<>> /\ Len(hist) = Len(PSteps(pi)) /\ step = 0
           /\ step' = 1
           /\ UNCHANGED <<S, hist, devs, op, pend, SR, cumdv, pi>>
PNext == PPhaseA \/ (PhaseB /\ UNCHANGED pi) \/ PFinish
PSpec == PInit /\ [][PNext]_pvars
PPrint == step = 0 \/ PrintT(ToJson([fam |-> Fam, walk |-> TRUE, prog |-> pi, pre |-> op.pre, steps |-> hist]))
=============================================================================
