----------------------------- MODULE MC_framing -----------------------------
(* C01: short pipelines with binary-unsafe arguments, every single and double cut of the byte stream. *)
EXTENDS Framing
Hostile == {<<>>, <<13>>, <<10>>, <<13, 10>>, <<0>>, <<255>>, <<36, 53, 13, 10>>, <<42, 49, 13, 10>>}
kz == <<107, 13, 10, 0>>
FrStreams ==
    { <<C("PING", <<>>)>>,
      <<C("SET", <<ka, <<13, 10>> >>), C("GET", <<ka>>)>>,
      <<C("SET", <<kz, <<0, 255>> >>), C("GET", <<kz>>), C("KEYS", <<W("*")>>)>>,
      <<C("RPUSH", <<ka, <<>>, <<13>>, <<36, 53, 13, 10>> >>), C("LRANGE", <<ka, N(0), N(-1)>>)>>,
      <<C("HSET", <<ka, <<10>>, <<42, 49, 13, 10>> >>), C("HGETALL", <<ka>>)>>,
      <<C("SADD", <<ka, <<255, 254>> >>), C("SMEMBERS", <<ka>>), C("SCARD", <<ka>>)>>,
      <<C("ECHO", <<<<>>>>), C("GET", <<kb>>), C("NOSUCH", <<x>>)>>,
      <<C("GET", <<>>), C("INCR", <<ka>>), C("INCR", <<ka>>)>>,
      <<C("NOSUCH", <<<<97, 13, 10, 98>>>>), C("PING", <<>>)>> }
=============================================================================
