----------------------------- MODULE MC_framing -----------------------------
(* C01: short pipelines with binary-unsafe arguments, every single and double cut of the byte stream. *)
EXTENDS Framing
Hostile == {<<>>, <<13>>, <<10>>, <<13, 10>>, <<0>>, <<255>>, <<36, 53, 13, 10>>, <<42, 49, 13, 10>>}
kz == <<107, 13, 10, 0>>
kbin == <<98, 255, 254, 128>>
FrStreams ==
    { <<C("PING", <<>>)>>,
      <<C("SET", <<ka, <<13, 10>> >>), C("GET", <<ka>>)>>,
      <<C("SET", <<kz, <<0, 255>> >>), C("GET", <<kz>>), C("KEYS", <<W("*")>>)>>,
      <<C("RPUSH", <<ka, <<>>, <<13>>, <<36, 53, 13, 10>> >>), C("LRANGE", <<ka, N(0), N(-1)>>)>>,
      <<C("HSET", <<ka, <<10>>, <<42, 49, 13, 10>> >>), C("HGETALL", <<ka>>)>>,
      <<C("SADD", <<ka, <<255, 254>> >>), C("SMEMBERS", <<ka>>), C("SCARD", <<ka>>)>>,
      <<C("ECHO", <<<<>>>>), C("GET", <<kb>>), C("NOSUCH", <<x>>)>>,
      <<C("GET", <<>>), C("INCR", <<ka>>), C("INCR", <<ka>>)>>,
      <<C("NOSUCH", <<<<97, 13, 10, 98>>>>), C("PING", <<>>)>>,
      \* names that are not valid UTF-8, through every command that hands a name back (short streams: the number of
      \* double cuts grows with the square of the length)
      <<C("SET", <<kbin, x>>), C("KEYS", <<W("*")>>)>>,
      <<C("SET", <<kbin, x>>), C("RANDOMKEY", <<>>)>>,
      <<C("HSET", <<ka, <<255>>, <<128>> >>), C("HKEYS", <<ka>>)>>,
      <<C("SADD", <<ka, <<192, 128>> >>), C("SPOP", <<ka>>)>>,
      <<C("RPUSH", <<ka, <<237, 160, 128>> >>), C("LPOP", <<ka>>)>> }
=============================================================================
