SPECIFICATION WSpec
CONSTANTS
  OpenDev = {}
  States <- SetStates
  CmdU <- SetCmds
  Relevant <- AllRelevant
  Fam = "sets"
  Vocab <- WVocab
  Depth = 8
  TreeOk <- AnyProg
  WalkOk <- WOk
INVARIANT WPrint
INVARIANT TWellFormed
CHECK_DEADLOCK FALSE
