-------------------- MODULE MC_hashes_walk --------------------
(* Random multi-step walks of the hashes family: its command universe issued by one connection from its
   bounded initial states (tlc -simulate); see MCWalk. *)
EXTENDS MC_hashes, MCWalk
WVocab == VocabOf(HashCmds)
WOk(s, st) == HashRelevant(s, st[2])
=============================================================================
