------------------------------ MODULE Trace_Lin -----------------------------
(***************************************************************************)
(* Trace validation for concurrent executions (C08, C09, C14): a recorded   *)
(* history of a real run - inv/ret events of k connections ordered by a     *)
(* global stamp, plus the database contents at quiescence - is accepted iff *)
(* some interleaving of the specification's atomic Apply steps explains     *)
(* every reply, respects every connection's order and the real-time order   *)
(* between connections, and ends in the observed final state.               *)
(*                                                                         *)
(* Events are consumed in stamp order.  inv(c): the request of c is about   *)
(* to be written (the event also carries the reply the operation eventually *)
(* got, which prunes the search); Lin(c): the unlogged moment the command   *)
(* takes effect - Apply - enabled only if it yields the recorded reply;     *)
(* ret(c): the reply has been read: the operation must have taken effect.   *)
(* Pipelined connections have several operations pending: they take effect  *)
(* in request order.  Many histories are validated in one TLC run (NextHist *)
(* resets the server state).  The sequential specification used is the      *)
(* "what the code does" reading (devs = OpenDev): atomicity is judged       *)
(* independently of the known functional deviations.                        *)
(***************************************************************************)
EXTENDS Server, Json

CONSTANTS HistFile, OpenDev
H == ndJsonDeserialize(HistFile)

\* (variable names must not coincide with bound identifiers used in the library modules: TLC then
\* treats those constant definitions as state-dependent and stops caching them - measured 1000x slower)
VARIABLES hN,      \* index of the history being validated
          eN,      \* next event of that history
          S,       \* server state of the specification
          nInv, nLin, nRet    \* per connection: operations invoked / taken effect / returned so far
tvars == <<hN, eN, S, nInv, nLin, nRet, devs>>

SeqSet(s) == {s[j] : j \in 1..Len(s)}
(* The recorded states are turned into explicit values (:> / @@ and TLCEval): TLC keeps function
   constructors lazy, and a lazily defined database would be re-evaluated on every access.     *)
RECURSIVE HashFromPairs(_)
HashFromPairs(ps) == IF ps = <<>> THEN <<>> ELSE (ps[1][1] :> ps[1][2]) @@ HashFromPairs(Tail(ps))
ValFromJ(v) ==
    CASE v.ty = "string" -> VStr(v.s, 0)
      [] v.ty = "list" -> VList(v.l, 0)
      [] v.ty = "hash" -> VHash(HashFromPairs(v.h), 0)
      [] v.ty = "set" -> VSet(TLCEval(SeqSet(v.m)), 0)
RECURSIVE DbFromEnts(_, _)
DbFromEnts(ents, d) ==
    IF ents = <<>> THEN <<>>
    ELSE LET e == Head(ents)
             rest == DbFromEnts(Tail(ents), d)
         IN  IF e.db = d THEN (e.k :> ValFromJ(e.v)) @@ rest ELSE rest
DbsFromJ(ents) == TLCEval([d \in DbIds |-> DbFromEnts(ents, d)])

Conns(hh) == SeqSet(hh.conns)
StartOf(hh) == LET s0 == InitServer(TLCEval(Conns(hh)))
                   ds == DbsFromJ(hh.pre)
               IN  TLCEval([s0 EXCEPT !.dbs = ds, !.oid = TLCEval([d \in DbIds |-> TLCEval([k \in DOMAIN ds[d] |-> 1])]), !.nid = 1,
                                      !.conn = TLCEval(s0.conn)])

\* does the specification's reply tree allow the observed reply?
RECURSIVE Matches(_, _)
Matches(sr, o) ==
    CASE sr.t = "int" -> o.t = "int" /\ o.n = sr.n
      [] sr.t = "intd" -> o.t = "int" /\ Itoa(o.n) = sr.d
      [] sr.t = "bulk" -> o.t = "bulk" /\ o.s = sr.s
      [] sr.t = "nil" -> o.t = "nil"
      [] sr.t = "simple" -> o.t = "simple" /\ o.v = sr.v
      [] sr.t = "err" -> o.t = "err" /\ (sr.code = "*" \/ o.code = sr.code \/ (sr.code = "ERR|WRONGTYPE" /\ o.code \in {"ERR", "WRONGTYPE"}))
      [] sr.t = "arr" -> o.t = "arr" /\ Len(o.a) = Len(sr.a) /\ \A j \in 1..Len(sr.a) : Matches(sr.a[j], o.a[j])
      [] sr.t = "uset" -> /\ o.t \in {"arr", "set"} /\ Len(o.a) = Cardinality(sr.m)
                          /\ \A j \in 1..Len(o.a) : o.a[j].t = "bulk"
                          /\ {o.a[j].s : j \in 1..Len(o.a)} = sr.m
      [] sr.t = "umap" -> /\ o.t \in {"arr", "map"} /\ Len(o.a) = 2 * Cardinality(sr.p)
                          /\ {<<o.a[2 * j - 1].s, o.a[2 * j].s>> : j \in 1..(Len(o.a) \div 2)} = sr.p
      [] sr.t = "ubag" -> o.t = "arr" /\ Len(o.a) = Len(sr.a)
      [] sr.t = "dead" -> FALSE
      [] OTHER -> TRUE

(* Operations are addressed by (connection, index): H[hN].ops[c][k] = [cmd, r].  Per connection the
   state only keeps three counters: invoked, taken effect, returned. *)
Zero(cs) == [c \in cs |-> 0]

Init == /\ hN = 1
        /\ eN = 1
        /\ devs = OpenDev
        /\ S = StartOf(H[1])
        /\ nInv = Zero(Conns(H[1])) /\ nLin = Zero(Conns(H[1])) /\ nRet = Zero(Conns(H[1]))
        /\ TLCSet(1, 0)

Ev == H[hN].ev[eN]
More == hN <= Len(H) /\ eN <= Len(H[hN].ev)

(* Canonical search order (complete, see DESIGN): an inv event is consumed as soon as it is next - that
   never disables anything; a ret event is consumed as soon as its operation has taken effect; operations
   take effect lazily, only when the next event is a ret that is still waiting for its operation (any
   pending operation of any connection may then take effect first) or when the events are exhausted.   *)
Inv == /\ More /\ Ev.e = "inv"
       /\ nInv' = [nInv EXCEPT ![Ev.c] = @ + 1]
       /\ eN' = eN + 1
       /\ UNCHANGED <<hN, S, devs, nLin, nRet>>

Ret == /\ More /\ Ev.e = "ret"
       /\ nLin[Ev.c] > nRet[Ev.c]
       /\ nRet' = [nRet EXCEPT ![Ev.c] = @ + 1]
       /\ eN' = eN + 1
       /\ UNCHANGED <<hN, S, devs, nInv, nLin>>

Blocked == More /\ Ev.e = "ret" /\ nLin[Ev.c] = nRet[Ev.c]
Lin(c) == /\ hN <= Len(H)
          /\ Blocked \/ eN > Len(H[hN].ev)
          /\ nLin[c] < nInv[c]
          /\ LET o == H[hN].ops[c][nLin[c] + 1]
                 res == Apply(S, c, o.cmd)
             IN  /\ Matches(res.r, o.r)
                 /\ S' = res.S
          /\ nLin' = [nLin EXCEPT ![c] = @ + 1]
          /\ UNCHANGED <<hN, eN, devs, nInv, nRet>>

\* end of a history: everything returned and the final state is the observed one
FinalOk == LiveDbs0(S) = DbsFromJ(H[hN].final)
NextHist == /\ hN <= Len(H) /\ eN > Len(H[hN].ev)
            /\ \A c \in DOMAIN nInv : nRet[c] = nInv[c]
            /\ FinalOk
            /\ hN' = hN + 1
            /\ eN' = 1
            /\ IF hN + 1 <= Len(H)
               THEN /\ S' = StartOf(H[hN + 1])
                    /\ nInv' = Zero(Conns(H[hN + 1])) /\ nLin' = Zero(Conns(H[hN + 1])) /\ nRet' = Zero(Conns(H[hN + 1]))
               ELSE UNCHANGED <<S, nInv, nLin, nRet>>
            /\ UNCHANGED devs

Next == Inv \/ Ret \/ NextHist \/ \E c \in DOMAIN nInv : Lin(c)
Spec == Init /\ [][Next]_tvars

\* "violated" exactly when every history has been explained: TLC's counterexample is the witness
NotAllAccepted == hN <= Len(H)

\* progress register: the furthest (history, event) any explored state has reached
Mark == TLCSet(1, IF TLCGet(1) < hN * 100000 + eN THEN hN * 100000 + eN ELSE TLCGet(1))
\* evaluated when the search is exhausted without a witness: tells which history / event was not explained
PrintMark == PrintT(<<"MARK", TLCGet(1)>>)
=============================================================================
