----------------------------- MODULE MC_expiry ------------------------------
(* C07: every command of the emulator applied to a key in each lifetime phase: no TTL,
   TTL in the future, deadline passed but object still stored; the EXPIRE option table.
   TLC checks ExpiredIsMissing on the ideal reading: replacing the stored database by its
   live part changes neither the reply nor the live successor of any command.            *)
EXTENDS Universe

Now0 == 1000000
Fut == Now0 + 500000
Past == Now0 - 10000
Keys == {ka, kb}
Phase == {0, Fut, Past}
ValA == UNION {{VStr(x, e), VStr(N(5), e), VList(<<x, y>>, e), VHash((f :> x), e), VSet({x, y}, e)} : e \in Phase}
ValB == UNION {{VStr(y, e), VList(<<x>>, e), VSet({x}, e)} : e \in Phase}
Dbs0 == UNION {{(ka :> va) @@ (kb :> vb) : va \in ValA, vb \in ValB}, {(ka :> va) : va \in ValA}, {(kb :> vb) : vb \in ValB}, {EmptyDb}}
(* SORT looks into other keys through its BY / GET patterns: a list whose elements name two strings (weights and
   fetched values at once), each of them in every lifetime phase - an expired weight / object is a missing one. *)
kcc == B("c")
SortDbs == {(ka :> VList(<<kb, kcc>>, 0)) @@ (kb :> VStr(N(2), e1)) @@ (kcc :> VStr(N(1), e2)) : e1 \in Phase, e2 \in Phase}
ExpStates == {WithDb0(InitServer({1}), d) : d \in Dbs0 \cup SortDbs}
SortExpCmds == { C("SORT", <<ka, W("BY"), W("*")>>), C("SORT", <<ka, W("BY"), W("*"), W("GET"), W("*")>>),
                 C("SORT", <<ka, W("BY"), W("nosort"), W("GET"), W("*"), W("GET"), W("#")>>),
                 C("SORT", <<ka, W("ALPHA"), W("GET"), W("*"), W("STORE"), B("d")>>),
                 C("SORT", <<ka, W("BY"), W("*"), W("DESC"), W("STORE"), B("d")>>) }

ExpKind(nm) == CASE nm = "EXPIRE" -> "s" [] nm = "PEXPIRE" -> "ms" [] nm = "EXPIREAT" -> "ats" [] OTHER -> "atms"
\* (SORT ... BY nosort of a set returns the members in the set's internal order, which Redis leaves open)
ExpRelevant(s, cmd) ==
    /\ ~(CmdName(cmd) = "SORT" /\ ka \in DOMAIN s.dbs[0] /\ s.dbs[0][ka].ty = "set")
    /\ ~(CmdName(cmd) \in {"EXPIRE", "PEXPIRE", "EXPIREAT", "PEXPIREAT"} /\ Len(cmd) = 4
         /\ ExpireAmbiguous(Live(s.dbs[0], s.now), s.now, Tail(cmd), ExpKind(CmdName(cmd))))

Opts == {<<>>, <<W("NX")>>, <<W("XX")>>, <<W("GT")>>, <<W("LT")>>, <<W("gt")>>, <<W("NX"), W("XX")>>, <<W("BOGUS")>>}
ExpCmds ==
    UNION {
      PerKey(ka, kb), PerKey(kb, ka), SortExpCmds,
      {C("EXPIRE", <<ka, t>> \o o) : t \in {N(100), N(900), N(0), N(-5)}, o \in Opts},
      {C("PEXPIRE", <<ka, t>> \o o) : t \in {N(100000), N(900000)}, o \in Opts},
      {C("EXPIREAT", <<ka, t>> \o o) : t \in {TMark(Fut - 100000), TMark(Fut + 100000), TMark(Past), N(5)}, o \in Opts},
      {C("PEXPIREAT", <<ka, t>> \o o) : t \in {MMark(Fut - 100000), MMark(Fut + 100000), MMark(Fut), MMark(Past)}, o \in Opts},
      {C("EXPIRE", <<ka, x>>), C("EXPIRE", <<ka>>), C("PEXPIREAT", <<ka, x>>), C("TTL", <<>>), C("PERSIST", <<ka, kb>>), C("EXPIRETIME", <<>>)},
      {C("SET", <<ka, y>> \o o) : o \in {<<W("KEEPTTL")>>, <<W("EX"), N(100)>>, <<W("PXAT"), MMark(Fut + 1000)>>, <<W("EXAT"), TMark(Fut + 1000)>>, <<W("XX"), W("KEEPTTL")>>, <<W("NX"), W("PX"), N(100000)>>, <<W("PXAT"), MMark(Past)>>}},
      {C("GETEX", <<ka>> \o o) : o \in {<<W("PERSIST")>>, <<W("EX"), N(100)>>, <<W("PXAT"), MMark(Fut + 1000)>>, <<W("PXAT"), MMark(Past)>>}},
      {C("RENAME", <<ka, B("c")>>), C("COPY", <<kb, B("c")>>), C("DEL", <<ka, kb>>), C("EXISTS", <<ka, kb>>), C("KEYS", <<W("*")>>), C("DBSIZE", <<>>), C("RANDOMKEY", <<>>),
       C("MGET", <<ka, kb>>), C("SUNIONSTORE", <<B("c"), ka, kb>>), C("SDIFFSTORE", <<ka, ka, kb>>), C("LMOVE", <<ka, ka, W("LEFT"), W("RIGHT")>>), C("FLUSHDB", <<>>),
       \* (kb may be a list of one element: the rotation empties and refills it - the time to live stays)
       C("LMOVE", <<kb, kb, W("RIGHT"), W("LEFT")>>), C("RPOPLPUSH", <<kb, kb>>)}
    }
=============================================================================
