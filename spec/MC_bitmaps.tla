----------------------------- MODULE MC_bitmaps -----------------------------
(* C18: GETBIT SETBIT BITCOUNT BITPOS BITOP on strings of 0..3 bytes over {00, ff, 80, 01, a5}. *)
EXTENDS Universe
Keys == {ka, kb}
Byt == {0, 255, 128, 1, 165}
StrA == {<<>>} \cup {<<p>> : p \in Byt} \cup {<<p, q>> : p \in {0, 255, 165}, q \in {0, 255, 1}} \cup {<<255, 255, 255>>, <<0, 0, 0>>, <<165, 1, 128>>, <<0, 128, 255>>}
ValA == {VStr(s, 0) : s \in StrA} \cup {VList(<<x>>, 0), VStr(<<255, 1>>, 1500000)}
ValB == {VStr(<<255>>, 0), VStr(<<15, 240, 170>>, 0), VSet({x}, 0)}
Dbs0 == UNION {{(ka :> va) @@ (kb :> vb) : va \in ValA, vb \in ValB}, {(ka :> va) : va \in ValA}, {(kb :> vb) : vb \in ValB}, {EmptyDb}}
BmStates == {WithDb0(InitServer({1}), d) : d \in Dbs0}
Rb == {N(j) : j \in {-4, -3, -2, -1, 0, 1, 2, 3, 4}}
Rbit == {N(j) : j \in {-25, -17, -9, -8, -1, 0, 1, 7, 8, 9, 15, 16, 23, 24, 30}}
kc == B("c")
BmCmds ==
    UNION {
      {C("GETBIT", <<k, N(o)>>) : k \in Keys, o \in (0..25) \cup {-1, 100}},
      {C("SETBIT", <<ka, N(o), N(v)>>) : o \in (0..25) \cup {-1, 33}, v \in {0, 1, 2, -1}},
      {C("SETBIT", <<kb, N(3), N(1)>>), C("SETBIT", <<ka, x, N(1)>>), C("SETBIT", <<ka, N(1)>>), C("GETBIT", <<ka>>), C("GETBIT", <<ka, x>>)},
      {C("BITCOUNT", <<k>>) : k \in Keys},
      {C("BITCOUNT", <<ka, s, e>>) : s \in Rb, e \in Rb},
      {C("BITCOUNT", <<ka, s, e, W("BYTE")>>) : s \in {N(0), N(1), N(-1)}, e \in {N(0), N(-1), N(5)}},
      {C("BITCOUNT", <<ka, s, e, W("BIT")>>) : s \in Rbit, e \in Rbit},
      {C("BITCOUNT", <<ka, N(0)>>), C("BITCOUNT", <<ka, N(0), N(1), W("BITS")>>), C("BITCOUNT", <<ka, x, N(1)>>), C("BITCOUNT", <<kb, N(1), N(1)>>), C("BITCOUNT", <<>>)},
      {C("BITPOS", <<k, N(b)>>) : k \in Keys, b \in {0, 1, 2, -1}},
      {C("BITPOS", <<ka, N(b), s>>) : b \in {0, 1}, s \in Rb},
      {C("BITPOS", <<ka, N(b), s, e>>) : b \in {0, 1}, s \in Rb, e \in Rb},
      {C("BITPOS", <<ka, N(b), s, e, W("BIT")>>) : b \in {0, 1}, s \in Rbit, e \in Rbit},
      {C("BITPOS", <<ka, N(b), s, e, W("byte")>>) : b \in {0, 1}, s \in {N(0), N(1)}, e \in {N(-1), N(0), N(1)}},
      {C("BITPOS", <<ka>>), C("BITPOS", <<ka, x>>), C("BITPOS", <<ka, N(1), x>>), C("BITPOS", <<ka, N(1), N(0), N(1), W("BITS")>>), C("BITPOS", <<kb, N(1), N(1)>>)},
      {C("BITOP", <<bop, dk>> \o ks) : bop \in {W("AND"), W("OR"), W("XOR"), W("and")}, dk \in {ka, kc}, ks \in {<<ka>>, <<ka, kb>>, <<kb, ka>>, <<ka, kc>>, <<kc, kc>>, <<ka, kb, kc>>, <<ka, ka>>}},
      {C("BITOP", <<W("NOT"), dk, sk>>) : dk \in {ka, kc}, sk \in {ka, kb, kc}},
      {C("BITOP", <<W("NOT"), kc, ka, kb>>), C("BITOP", <<W("NAND"), kc, ka>>), C("BITOP", <<W("AND")>>)}
    }
=============================================================================
