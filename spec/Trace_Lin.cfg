SPECIFICATION Spec
CONSTANTS
  HistFile = "hist.ndjson"
  OpenDev = {}
INVARIANT NotAllAccepted
CONSTRAINT Mark
CHECK_DEADLOCK FALSE
POSTCONDITION PrintMark
