---------------------------- MODULE MC_scan_small ---------------------------
(* exhaustive generator configuration of ScanHist: all schedules of 6 operations over 3 elements, starting from
   the empty or the full collection (the harness loads the initial elements first) *)
EXTENDS ScanHist
=============================================================================
