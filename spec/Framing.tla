------------------------------- MODULE Framing ------------------------------
(***************************************************************************)
(* C01: the socket read loop.  A client writes the byte stream              *)
(*    EncCmd(c1) \o ... \o EncCmd(cn)                                        *)
(* in arbitrary chunks.  The server appends what it reads to `inbound`,     *)
(* parses ONE complete command from the start of the buffer, consumes       *)
(* exactly its bytes, executes it, appends the encoded reply to `out`, and  *)
(* only then looks at the buffer again (one command in flight).             *)
(*                                                                         *)
(* Checked by TLC on this model, for every chunking with at most MaxCuts    *)
(* cuts: one reply per command, in order, and at the end                    *)
(*    out = Enc(reply1) \o ... \o Enc(replyn)    - split-independence.       *)
(* Every terminal behaviour's chunking is printed for replay on a real      *)
(* socket.                                                                  *)
(***************************************************************************)
EXTENDS Universe
CONSTANTS Streams, MaxCuts       \* Streams: set of command sequences
VARIABLES cmds, sent, inbound, done, chunks, cuts
fvars == <<S, step, op, devs, cmds, sent, inbound, done, chunks, cuts>>

CRLF == <<13, 10>>
EncBulk(b) == <<36>> \o Itoa(Len(b)) \o CRLF \o b \o CRLF
RECURSIVE Concat(_)
Concat(ss) == IF ss = <<>> THEN <<>> ELSE Head(ss) \o Concat(Tail(ss))
EncCmd(c) == <<42>> \o Itoa(Len(c)) \o CRLF \o Concat([j \in 1..Len(c) |-> EncBulk(c[j])])
StreamOf(cs) == Concat([j \in 1..Len(cs) |-> EncCmd(cs[j])])

\* position just after the first CRLF at or after p, or 0
LineEnd(buf, p) == IF \E q \in p..(Len(buf) - 1) : buf[q] = 13 /\ buf[q + 1] = 10
                   THEN (CHOOSE q \in p..(Len(buf) - 1) : buf[q] = 13 /\ buf[q + 1] = 10 /\ \A u \in p..(q - 1) : ~(buf[u] = 13 /\ buf[u + 1] = 10)) + 2
                   ELSE 0
\* length of the first complete command (array of bulk strings) in buf, 0 if incomplete
RECURSIVE BulksEnd(_, _, _)
BulksEnd(buf, p, n) ==       \* position after n bulk strings starting at p, or 0
    IF n = 0 THEN p
    ELSE LET le == LineEnd(buf, p)
             len == IF le = 0 THEN 0 ELSE ArgInt(SubSeq(buf, p + 1, le - 3)).v
             endp == le + len + 2
         IN  IF le = 0 \/ endp - 1 > Len(buf) THEN 0 ELSE BulksEnd(buf, endp, n - 1)
FrameLen(buf) ==
    LET le == LineEnd(buf, 1)
        n == IF le = 0 THEN 0 ELSE ArgInt(SubSeq(buf, 2, le - 3)).v
        e == IF le = 0 THEN 0 ELSE BulksEnd(buf, le, n)
    IN  IF e = 0 THEN 0 ELSE e - 1

\* parse the command occupying the first len bytes of buf
RECURSIVE ParseBulks(_, _, _)
ParseBulks(buf, p, n) ==
    IF n = 0 THEN <<>>
    ELSE LET le == LineEnd(buf, p)
             len == ArgInt(SubSeq(buf, p + 1, le - 3)).v
         IN  <<SubSeq(buf, le, le + len - 1)>> \o ParseBulks(buf, le + len + 2, n - 1)
ParseCmd(buf) == LET le == LineEnd(buf, 1) IN ParseBulks(buf, le, ArgInt(SubSeq(buf, 2, le - 3)).v)

FInit == /\ cmds \in Streams
         /\ S = InitServer({1}) /\ step = 0 /\ op = [none |-> TRUE] /\ devs \in {{}, OpenDev}
         /\ sent = 0 /\ inbound = <<>> /\ done = <<>> /\ chunks = <<>> /\ cuts = 0

Stream == StreamOf(cmds)
\* the client writes the next n bytes (a proper prefix of what is left costs one cut)
Deliver == /\ sent < Len(Stream)
           /\ \E n \in 1..(Len(Stream) - sent) :
                /\ (n < Len(Stream) - sent) => cuts < MaxCuts
                /\ cuts' = IF n < Len(Stream) - sent THEN cuts + 1 ELSE cuts
                /\ inbound' = inbound \o SubSeq(Stream, sent + 1, sent + n)
                /\ sent' = sent + n
                /\ chunks' = Append(chunks, n)
           /\ UNCHANGED <<S, step, op, devs, cmds, done>>
\* the server takes one complete command from the start of its buffer and executes it
Serve == /\ FrameLen(inbound) > 0
         /\ LET n == FrameLen(inbound)
                c == ParseCmd(inbound)
                res == Apply(S, 1, c)
            IN  /\ S' = res.S
                /\ done' = Append(done, [cmd |-> c, r |-> res.r])
                /\ inbound' = SubSeq(inbound, n + 1, Len(inbound))
         /\ UNCHANGED <<step, op, devs, cmds, sent, chunks, cuts>>
FNext == Deliver \/ Serve
FSpec == FInit /\ [][FNext]_fvars

Finished == sent = Len(Stream) /\ FrameLen(inbound) = 0

\* the replies a sequential execution of the commands gives
RECURSIVE SeqRun(_, _)
SeqRun(s, cs) == IF cs = <<>> THEN <<>> ELSE LET res == Apply(s, 1, Head(cs)) IN <<res.r>> \o SeqRun(res.S, Tail(cs))

\* one reply per consumed command, the consumed commands are exactly the sent ones, in order
InOrder == \A j \in 1..Len(done) : done[j].cmd = cmds[j]
\* split-independence: whatever the chunking, the replies are those of the sequential execution
SplitIndependent == (devs = {} /\ Finished) => (Len(done) = Len(cmds) /\ inbound = <<>> /\ [j \in 1..Len(done) |-> done[j].r] = SeqRun(InitServer({1}), cmds))

FEmit == (sent' = Len(Stream) /\ sent < Len(Stream)) =>
            PrintT(ToJson([framing |-> TRUE, dev |-> devs # {}, cmds |-> cmds, chunks |-> chunks', replies |-> SeqRun(InitServer({1}), cmds)]))
=============================================================================
