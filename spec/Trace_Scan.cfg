INIT TInit
NEXT TNext
CONSTANTS
  N = 1
  Depth = 1
  Counts = {1}
  HistFile = "scanhist.ndjson"
CHECK_DEADLOCK FALSE
