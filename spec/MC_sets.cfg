SPECIFICATION Spec
CONSTANTS
  OpenDev = {}
  States <- SetStates
  CmdU <- SetCmds
  Fam = "sets"
ACTION_CONSTRAINT Emit
VIEW View
INVARIANT WellFormed
PROPERTY FailedInert
CHECK_DEADLOCK FALSE
