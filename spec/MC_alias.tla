------------------------------ MODULE MC_alias ------------------------------
(* C06 "every other key is left unchanged" / "no empty key" across DERIVED keys: all programs
       derive ; mutate ; mutate
   where `derive` makes one key out of others (S*STORE whose result equals an operand, COPY of every type, SORT ... STORE,
   BITOP with one source, LMOVE, SMOVE, RENAME, GETSET-style copies ...) and the mutations then write to - or empty - the
   derived key or one of its sources.  In the specification keys hold values; an implementation that lets two keys
   share one table / list / byte slice shows up when the write to one key changes the other (the full state of the
   database is compared after every step). *)
EXTENDS MCTree

z == B("z")
q == B("q")
kd == B("d")
kl == B("l")
kh == B("h")
ks == B("s")
AliasS0 == WithDb0(InitServer({1}), (ka :> VSet({x, y}, 0)) @@ (kb :> VSet({z}, 0)) @@ (kl :> VList(<<x, y>>, 0))
                                    @@ (kh :> VHash((f :> x), 0)) @@ (ks :> VStr(<<97, 98>>, 0)))
AliasS1 == WithDb0(InitServer({1}), (ka :> VSet({x, y}, 0)) @@ (kb :> VSet({x}, 0)) @@ (kd :> VSet({q}, 0)) @@ (kl :> VList(<<x>>, 0))
                                    @@ (kh :> VHash((f :> x) @@ (B("g") :> y), 0)) @@ (ks :> VStr(<<97>>, 0)))
AliasStates == {AliasS0, AliasS1}

Derive ==
    { C("SDIFFSTORE", <<kd, ka, kb>>), C("SDIFFSTORE", <<kd, ka>>), C("SDIFFSTORE", <<kd, ka, B("nokey")>>), C("SDIFFSTORE", <<ka, ka, kb>>),
      C("SUNIONSTORE", <<kd, ka>>), C("SUNIONSTORE", <<kd, ka, kb>>), C("SUNIONSTORE", <<kd, ka, ka>>), C("SUNIONSTORE", <<ka, ka, B("nokey")>>),
      C("SINTERSTORE", <<kd, ka>>), C("SINTERSTORE", <<kd, ka, ka>>), C("SINTERSTORE", <<kd, kb, ka>>), C("SINTERSTORE", <<kb, ka, ka>>),
      C("COPY", <<ka, kd, W("REPLACE")>>), C("COPY", <<kl, kd, W("REPLACE")>>), C("COPY", <<kh, kd, W("REPLACE")>>), C("COPY", <<ks, kd, W("REPLACE")>>),
      C("SORT", <<kl, W("ALPHA"), W("STORE"), kd>>), C("SORT", <<ka, W("ALPHA"), W("STORE"), kd>>),
      C("LMOVE", <<kl, kd, W("LEFT"), W("RIGHT")>>), C("SMOVE", <<ka, kd, x>>), C("RENAME", <<ka, kd>>),
      C("BITOP", <<W("OR"), kd, ks>>), C("BITOP", <<W("AND"), kd, ks, ks>>), C("BITOP", <<W("XOR"), kd, ks, B("nokey")>>), C("BITOP", <<W("NOT"), kd, ks>>),
      C("GETRANGE", <<ks, N(0), N(-1)>>), C("SET", <<kd, <<97, 98>> >>) }
Mutate ==
    { C("SADD", <<kd, B("w")>>), C("SADD", <<ka, B("w")>>), C("SREM", <<kd, x, y, z, q>>), C("SREM", <<ka, x, y>>), C("SMOVE", <<kd, kb, y>>), C("SMOVE", <<ka, kb, y>>),
      C("RPUSH", <<kd, q>>), C("RPUSH", <<kl, q>>), C("LPOP", <<kd, N(2)>>), C("LPOP", <<kl, N(2)>>), C("LSET", <<kd, N(0), q>>), C("LSET", <<kl, N(0), q>>),
      C("LREM", <<kd, N(0), y>>), C("LINSERT", <<kl, W("BEFORE"), y, q>>),
      C("HSET", <<kd, f, q>>), C("HSET", <<kh, f, q>>), C("HDEL", <<kd, f, B("g")>>), C("HDEL", <<kh, f, B("g")>>), C("HINCRBY", <<kd, B("n"), N(1)>>),
      C("APPEND", <<kd, q>>), C("APPEND", <<ks, q>>), C("SETRANGE", <<kd, N(0), q>>), C("SETRANGE", <<ks, N(0), q>>), C("SETBIT", <<kd, N(7), N(0)>>), C("SETBIT", <<ks, N(7), N(0)>>),
      C("BITFIELD", <<kd, W("SET"), W("u8"), N(0), N(255)>>), C("BITFIELD", <<ks, W("SET"), W("u8"), N(0), N(255)>>),
      C("DEL", <<kd>>), C("DEL", <<ka>>), C("EXPIRE", <<kd, N(100)>>), C("EXPIRE", <<ka, N(100)>>) }
AliasVocab == {<<1, c>> : c \in Derive \cup Mutate}
\* derive ; derive or mutate ; one of the emptying / growing mutations
MutateLast == { C("SADD", <<ka, B("w")>>), C("SREM", <<kd, x, y, z, q>>), C("SREM", <<ka, x, y>>), C("SMOVE", <<kd, kb, y>>), C("LPOP", <<kd, N(2)>>), C("RPUSH", <<kl, q>>),
                C("HDEL", <<kd, f, B("g")>>), C("HSET", <<kh, f, q>>), C("SETRANGE", <<ks, N(0), q>>), C("APPEND", <<kd, q>>), C("DEL", <<ka>>) }
AliasOk(h, st) == CASE Len(h) = 0 -> st[2] \in Derive
                    [] Len(h) = 1 -> TRUE
                    [] OTHER -> st[2] \in MutateLast
=============================================================================
