SPECIFICATION WSpec
CONSTANTS
  OpenDev = {}
  States <- HashStates
  CmdU <- HashCmds
  Relevant <- HashRelevant
  Fam = "hashes"
  Vocab <- WVocab
  Depth = 8
  TreeOk <- AnyProg
  WalkOk <- WOk
INVARIANT WPrint
INVARIANT TWellFormed
CHECK_DEADLOCK FALSE
