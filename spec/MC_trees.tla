------------------------------ MODULE MC_trees ------------------------------
(* C15: all reply trees of depth <= 2 over every node type the emulator can emit.  Each tree is sent as
   `ECHO <json of the tree>` to a child whose dispatch hook (public SetHook API) returns the corresponding
   native value, once on a RESP2 and once on a RESP3 connection; Trace_Resp judges the pair.  This
   exercises every branch of the RESP3 -> RESP2 conversion independently of which command uses it. *)
EXTENDS Universe

Leaf == { [t |-> "nil"], [t |-> "int", n |-> 5], [t |-> "int", n |-> -1], [t |-> "str", s |-> "x"], [t |-> "str", s |-> ""],
          [t |-> "bool", n |-> 1], [t |-> "bool", n |-> 0], [t |-> "dbl", s |-> "1.5"], [t |-> "dbl", s |-> "-0.25"], [t |-> "dbl", s |-> "inf"],
          [t |-> "big", s |-> "1180591620717411303424"] }
KeyLeaf == { [t |-> "int", n |-> 5], [t |-> "str", s |-> "k"], [t |-> "str", s |-> "q"] }
Agg1 == { [t |-> "arr", a |-> <<>>], [t |-> "set", a |-> <<>>], [t |-> "map", a |-> <<>>] }
        \cup { [t |-> "arr", a |-> <<l>>] : l \in Leaf } \cup { [t |-> "arr", a |-> <<l1, l2>>] : l1 \in Leaf, l2 \in {[t |-> "nil"], [t |-> "str", s |-> "x"], [t |-> "bool", n |-> 1]} }
        \cup { [t |-> "set", a |-> <<l>>] : l \in Leaf \ {[t |-> "nil"]} } \cup { [t |-> "set", a |-> <<[t |-> "str", s |-> "x"], [t |-> "int", n |-> 5]>>] }
        \cup { [t |-> "map", a |-> << <<k, v>> >>] : k \in KeyLeaf, v \in Leaf }
        \cup { [t |-> "map", a |-> << <<[t |-> "str", s |-> "k"], v>>, <<[t |-> "str", s |-> "q"], [t |-> "int", n |-> 5]>> >>] : v \in {[t |-> "bool", n |-> 1], [t |-> "dbl", s |-> "1.5"]} }
Trees == Leaf \cup Agg1
         \cup { [t |-> "arr", a |-> <<g>>] : g \in Agg1 }
         \cup { [t |-> "map", a |-> << <<[t |-> "str", s |-> "k"], g>> >>] : g \in Agg1 }
         \cup { [t |-> "arr", a |-> <<[t |-> "int", n |-> 5], g, [t |-> "nil"]>>] : g \in {gg \in Agg1 : gg.t \in {"map", "set"}} }
TreeCmds == { C("ECHO", <<B(ToJson(tr))>>) : tr \in Trees }
TreeStates == {InitServer({1})}
=============================================================================
