--------------------------- MODULE MC_multi_walk ----------------------------
(* random walks of three connections over the C14 vocabulary (tlc -simulate) *)
EXTENDS MC_multi, MCWalk
=============================================================================
