------------------------------- MODULE MCBase -------------------------------
(***************************************************************************)
(* Transition enumeration: every state of a bounded family x every command  *)
(* instance, each transition printed as one JSON case for replay against    *)
(* the real server, together with the property checks that make the model   *)
(* a meaningful oracle.  Instantiated per family by a cfg that overrides    *)
(* States (set of server states), CmdU (set of command vectors), Fam.       *)
(*                                                                         *)
(* devs ranges over {{}, OpenDev}: the same transitions are evaluated under *)
(* the ideal reading and under "known deviations enabled"; the latter are   *)
(* only printed where a deviation actually shaped the result.               *)
(***************************************************************************)
EXTENDS Server, Json
CONSTANTS OpenDev, States, CmdU, Fam, Relevant(_, _)   \* Relevant(S, cmd): pairs the family claims (see each MC module)
VARIABLES S, step, op
vars == <<S, step, op, devs>>
AllRelevant(s, cmd) == TRUE

ValJ(v) == IF v.ty = "hash" THEN [ty |-> "hash", exp |-> v.exp, h |-> {<<f, v.h[f]>> : f \in DOMAIN v.h}] ELSE v
EntsJ(dbs) == UNION {{[db |-> i, k |-> k, v |-> ValJ(dbs[i][k])] : k \in DOMAIN dbs[i]} : i \in DOMAIN dbs}
ConnJ(cn) == {[id |-> c, db |-> cn[c].db, proto |-> cn[c].proto, multi |-> cn[c].multi] : c \in DOMAIN cn}
StateJ(s) == [ents |-> EntsJ(s.dbs), now |-> s.now, conn |-> ConnJ(s.conn)]

Init == /\ S \in States
        /\ step = 0
        /\ op = [none |-> TRUE]
        /\ devs \in {{}, OpenDev}

Next == /\ step = 0
        /\ step' = 1
        /\ UNCHANGED devs
        /\ \E c \in DOMAIN S.conn, cmd \in CmdU :
             LET res == Apply(S, c, cmd)
             IN  /\ Relevant(S, cmd)
                 /\ S' = res.S
                 /\ op' = [fam |-> Fam, dev |-> devs # {}, pre |-> StateJ(S),
                           steps |-> << [c |-> c, cmd |-> cmd, r |-> res.r, post |-> StateJ(res.S),
                                        dv |-> res.dv, rel |-> res.rel, tol |-> res.tol] >>]
Spec == Init /\ [][Next]_vars

Emit == (devs = {} \/ op'.steps[1].dv # {}) => PrintT(ToJson(op'))
View == <<S, step, devs>>

-----------------------------------------------------------------------------
(* Properties of the ideal reading (devs = {}), evaluated on every transition *)

LiveDbs(s) == [i \in DOMAIN s.dbs |-> Live(s.dbs[i], s.now)]

\* C06: databases are well formed: one type per key, no empty aggregate
WellFormed == devs = {} => \A i \in DOMAIN S.dbs : WFDb(S.dbs[i])

\* C06: a command that fails leaves every key, value and expiry unchanged
FailedInert == [][(devs = {} /\ IsErr(op'.steps[1].r)) => LiveDbs(S') = LiveDbs(S)]_vars

\* C07: stored-but-expired data is indistinguishable from missing data
ExpiredIsMissing ==
    [][devs = {} =>
        LET cmd == op'.steps[1].cmd
            c == op'.steps[1].c
            purged == [S EXCEPT !.dbs = LiveDbs(S)]
            r2 == Apply(purged, c, cmd)
        IN  r2.r = op'.steps[1].r /\ LiveDbs(r2.S) = LiveDbs(S')]_vars

=============================================================================
