SPECIFICATION WSpec
CONSTANTS
  OpenDev = {}
  States <- ConcStates
  Vocab <- ConcVocab
  TreeOk <- AnyProg
  WalkOk <- AnyState
  Depth = 24
  CmdU = {}
  Relevant <- AllRelevant
  Fam = "conc"
INVARIANT WPrint
CHECK_DEADLOCK FALSE
