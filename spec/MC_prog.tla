------------------------------ MODULE MC_prog -------------------------------
(* Runs the programs of progs.ndjson (planned by lib/dictsteer.py from the state graph of Dict.tla) from the
   empty server with one connection. *)
EXTENDS MCProg
ProgStates == {InitServer({1})}
NoVocab == {}
PRelevant(s, cmd) == TRUE
=============================================================================
