------------------------------- MODULE Dict ---------------------------------
(* The emulator's hash table (redisDict.go), transcribed.  Hashes, sets and every database's keyspace are kept
   in this structure: ONE item per bucket, the bucket index is the bit-reversed low bits of the 64-bit SipHash of
   the name; storing a name that collides doubles the table until the two hashes differ; after more than nb/2
   successful removals the table is halved unless some (even, odd) bucket pair is full.

   The abstract specification (Hashes / Sets / Keyspace) knows nothing of this: a dictionary is a function.
   This module is the refinement side: `Refines` says that under every sequence of store / remove the table
   holds exactly the names the function holds (nothing overwritten or dropped by a rehash, count right), and
   TLC's state graph over a pool of names with their REAL hash bits is turned into test programs that drive the
   real table through every branch of store / remove (grow by 1..k doublings, shrink, shrink vetoed by pair p,
   minimum size) - see lib/dictsteer.py and DESIGN.md "dict steering".                                        *)
EXTENDS Integers, Sequences, FiniteSets, TLC, Json
CONSTANTS Pool,          \* name ids 1..N
          HashBits,      \* name id -> low bits of its hash (as a number), HB bits of it
          HB,            \* number of hash bits given
          MaxNb,         \* table sizes explored (the pool is chosen so that it is never exceeded)
          ResetWhenEmpty \* TRUE for hashes and sets: removing the last element deletes the key, the next store starts
                         \* with a fresh table; FALSE for a database's keyspace, whose table lives on
VARIABLES dict, abs, dop
dvars == <<dict, abs, dop>>

Pow2(k) == IF k = 0 THEN 1 ELSE IF k = 1 THEN 2 ELSE IF k = 2 THEN 4 ELSE IF k = 3 THEN 8 ELSE IF k = 4 THEN 16
           ELSE IF k = 5 THEN 32 ELSE IF k = 6 THEN 64 ELSE IF k = 7 THEN 128 ELSE IF k = 8 THEN 256 ELSE 512
Log2(n) == CHOOSE k \in 0..9 : Pow2(k) = n
RECURSIVE Rev(_, _)
Rev(x, k) == IF k = 0 THEN 0 ELSE (x % 2) * Pow2(k - 1) + Rev(x \div 2, k - 1)
\* hashToIndex: the low log2(nb) bits of the hash, bit-reversed
Index(n, nb) == Rev(HashBits[n] % nb, Log2(nb))

Empty == [nb |-> 16, bk |-> [i \in 0..15 |-> 0], rem |-> 0, count |-> 0]
Names(d) == {d.bk[i] : i \in 0..d.nb - 1} \ {0}

\* rehash(n2): items are moved in bucket order; a collision silently overwrites (the later item wins)
Rehash(d, n2) ==
    [d EXCEPT !.nb = n2,
              !.bk = [i \in 0..n2 - 1 |->
                        LET src == {j \in 0..d.nb - 1 : d.bk[j] # 0 /\ Index(d.bk[j], n2) = i}
                        IN  IF src = {} THEN 0 ELSE d.bk[CHOOSE j \in src : \A j2 \in src : j2 <= j]]]

\* store(key): result [d, label]
Store(d, n) ==
    LET idx == Index(n, d.nb)
        it == d.bk[idx]
    IN  IF it = n THEN [d |-> d, label |-> "update"]
        ELSE IF it = 0 THEN [d |-> [d EXCEPT !.bk[idx] = n, !.count = @ + 1], label |-> "insert"]
        ELSE LET k == CHOOSE k \in 1..(HB - Log2(d.nb)) :
                        /\ HashBits[it] % (d.nb * Pow2(k)) # HashBits[n] % (d.nb * Pow2(k))
                        /\ \A k2 \in 1..k - 1 : HashBits[it] % (d.nb * Pow2(k2)) = HashBits[n] % (d.nb * Pow2(k2))
                 n2 == d.nb * Pow2(k)
                 d2 == Rehash(d, n2)
             IN  [d |-> [d2 EXCEPT !.bk[Index(n, n2)] = n, !.count = @ + 1], label |-> "grow" \o ToString(k)]

\* remove(key)
Remove(d, n) ==
    LET idx == Index(n, d.nb)
    IN  IF d.bk[idx] # n THEN [d |-> d, label |-> "absent"]
        ELSE LET d1 == [d EXCEPT !.bk[idx] = 0, !.count = @ - 1, !.rem = @ + 1]
             IN  IF d1.rem <= d1.nb \div 2 THEN [d |-> d1, label |-> "remove"]
                 ELSE LET d2 == [d1 EXCEPT !.rem = 0]
                          full == {i \in 0..d2.nb - 1 : i % 2 = 0 /\ d2.bk[i] # 0 /\ d2.bk[i + 1] # 0}
                      IN  IF d2.nb <= 16 THEN [d |-> d2, label |-> "check-minimum"]
                          ELSE IF full # {} THEN [d |-> d2, label |-> "veto" \o ToString(d2.nb) \o "@" \o ToString(CHOOSE i \in full : \A i2 \in full : i <= i2)]
                          ELSE [d |-> Rehash(d2, d2.nb \div 2), label |-> "shrink" \o ToString(d2.nb)]

\* iteration order (HGETALL / SMEMBERS / KEYS, and the cursor order of the SCAN family)
Order(d) == SelectSeq([i \in 1..d.nb |-> d.bk[i - 1]], LAMBDA x : x # 0)

DInit == dict = Empty /\ abs = {} /\ dop = [op |-> "init"]
DStore(n) == LET r == Store(dict, n)
             IN  /\ r.d.nb <= MaxNb
                 /\ dict' = r.d /\ abs' = abs \cup {n}
                 /\ dop' = [op |-> "S", n |-> n, label |-> r.label, pre |-> [nb |-> dict.nb, rem |-> dict.rem, o |-> Order(dict)],
                            post |-> [nb |-> r.d.nb, rem |-> r.d.rem, o |-> Order(r.d)]]
DRemove(n) == LET r0 == Remove(dict, n)
                  r == IF ResetWhenEmpty /\ r0.d.count = 0 /\ r0.label # "absent" THEN [d |-> Empty, label |-> r0.label] ELSE r0
              IN  /\ dict' = r.d /\ abs' = abs \ {n}
                  /\ dop' = [op |-> "R", n |-> n, label |-> r.label, pre |-> [nb |-> dict.nb, rem |-> dict.rem, o |-> Order(dict)],
                             post |-> [nb |-> r.d.nb, rem |-> r.d.rem, o |-> Order(r.d)]]
DNext == \E n \in Pool : DStore(n) \/ DRemove(n)
DSpec == DInit /\ [][DNext]_dvars

\* --- properties of the transcribed algorithm
Refines == Names(dict) = abs /\ dict.count = Cardinality(abs)
OnePlace == \A i, j \in 0..dict.nb - 1 : (i # j /\ dict.bk[i] # 0) => dict.bk[i] # dict.bk[j]
Findable == \A n \in abs : dict.bk[Index(n, dict.nb)] = n
SizeOk == dict.nb >= 16 /\ dict.rem <= dict.nb \div 2

DEmit == PrintT(ToJson(dop'))
DView == <<dict, abs>>
=============================================================================
