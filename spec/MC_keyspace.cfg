SPECIFICATION Spec
CONSTANTS
  OpenDev = {}
  States <- KsStates
  CmdU <- KsCmds
  Relevant <- AllRelevant
  Fam = "keyspace"
ACTION_CONSTRAINT Emit
VIEW View
INVARIANT WellFormed
PROPERTY FailedInert
CHECK_DEADLOCK FALSE
