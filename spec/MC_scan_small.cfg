SPECIFICATION ESpec
CONSTANTS
  N = 3
  Depth = 6
  Counts = {1}
  HistFile = "none.ndjson"
ACTION_CONSTRAINT EEmit
CHECK_DEADLOCK FALSE
