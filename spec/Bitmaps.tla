------------------------------- MODULE Bitmaps ------------------------------
(***************************************************************************)
(* Bitmap commands.  A string is a big-endian bit array: bit i is bit       *)
(* (7 - i % 8) of byte i \div 8; reading beyond the end yields zeros,        *)
(* writing zero-extends the string.  BITFIELD arithmetic is exact for every *)
(* width up to 64 bits: field values are Num records (decimal digit         *)
(* sequences, Bytes.tla), two's complement is done on them.                 *)
(***************************************************************************)
EXTENDS Strings

Pow2Int(n) == 2 ^ n                   \* n <= 8 here
BitAt(s, i) == IF i >= 0 /\ i \div 8 < Len(s) THEN (s[i \div 8 + 1] \div Pow2Int(7 - (i % 8))) % 2 ELSE 0
ZeroExt(s, nbytes) == IF Len(s) >= nbytes THEN s ELSE s \o [j \in 1..(nbytes - Len(s)) |-> 0]
\* the string with bit i set to v (string long enough)
WithBit(s, i, v) ==
    LET bi == i \div 8 + 1
        w == Pow2Int(7 - (i % 8))
        old == (s[bi] \div w) % 2
    IN  [s EXCEPT ![bi] = s[bi] + (v - old) * w]
PopCount(b) == Cardinality({j \in 0..7 : (b \div Pow2Int(j)) % 2 = 1})

GetBit(d, a) ==
    LET o == ArgInt(a[2])
    IN  IF Len(a) # 2 \/ ~o.ok THEN Fail(d, EArg)
        ELSE IF o.v < 0 THEN Fail(d, IF WrongType(d, a[1], "string") THEN RErr("ERR|WRONGTYPE") ELSE RErr("ERR"))
        ELSE IF WrongType(d, a[1], "string") THEN Fail(d, WT)
        ELSE Res(d, RInt(BitAt(StrOf(d, a[1]), o.v)))

SetBit(d, a) ==
    LET k == a[1]
        o == ArgInt(a[2])
        v == ArgInt(a[3])
        s == ZeroExt(StrOf(d, k), o.v \div 8 + 1)
    IN  IF Len(a) # 3 \/ ~o.ok \/ ~v.ok THEN Fail(d, EArg)
        ELSE IF o.v < 0 \/ v.v \notin {0, 1} THEN Fail(d, IF WrongType(d, k, "string") THEN RErr("ERR|WRONGTYPE") ELSE RErr("ERR"))
        ELSE IF WrongType(d, k, "string") THEN
             (IF On("D_SETBIT_WRONGTYPE_PANICS") THEN ResD(d, [t |-> "dead"], "D_SETBIT_WRONGTYPE_PANICS") ELSE Fail(d, WT))
        ELSE Res(Put(d, k, VStr(WithBit(s, o.v, v.v), ExpOf(d, k))), RInt(BitAt(s, o.v)))

\* Redis range normalisation shared by BITCOUNT and BITPOS: returns [empty, lo, hi] over 0..n-1
NormIdx(n, s0, e0) ==
    LET s1 == IF s0 < 0 THEN Max2(n + s0, 0) ELSE s0
        e1 == IF e0 < 0 THEN Max2(n + e0, 0) ELSE e0
        e2 == IF e1 >= n THEN n - 1 ELSE e1
    IN  [empty |-> (s0 < 0 /\ e0 < 0 /\ s0 > e0) \/ n = 0 \/ s1 > e2, lo |-> s1, hi |-> e2]

CountBits(s, lo, hi) == Cardinality({j \in lo..hi : BitAt(s, j) = 1})

\* BITCOUNT key [start end [BYTE|BIT]]
BitCount(d, a) ==
    LET k == a[1]
        s == StrOf(d, k)
        st == ArgInt(a[2])
        en == ArgInt(a[3])
        bit == Len(a) = 4 /\ Is(a[4], "BIT")
        unitOk == Len(a) <= 3 \/ Is(a[4], "BIT") \/ Is(a[4], "BYTE")
        n == IF bit THEN 8 * Len(s) ELSE Len(s)
        r == NormIdx(n, st.v, en.v)
        ideal == IF Len(a) = 1 THEN CountBits(s, 0, 8 * Len(s) - 1)
                 ELSE IF r.empty THEN 0
                 ELSE IF bit THEN CountBits(s, r.lo, r.hi) ELSE CountBits(s, 8 * r.lo, 8 * r.hi + 7)
        \* the emulator clamps a start beyond the end to the last unit instead of answering 0
        es0 == IF st.v < 0 THEN n + st.v ELSE st.v
        ee0 == IF en.v < 0 THEN n + en.v ELSE en.v
        es == IF es0 < 0 THEN 0 ELSE IF es0 >= n THEN n - 1 ELSE es0
        ee == IF ee0 >= n THEN n - 1 ELSE ee0
        emu == IF ee < es THEN 0 ELSE IF bit THEN CountBits(s, es, ee) ELSE CountBits(s, 8 * es, 8 * ee + 7)
    IN  IF Len(a) \notin {1, 3, 4} \/ (Len(a) >= 3 /\ (~st.ok \/ ~en.ok)) \/ ~unitOk THEN Fail(d, EArg)
        ELSE IF WrongType(d, k, "string") THEN Fail(d, WT)
        ELSE IF Has(d, k) /\ s = <<>> /\ On("D_BITCOUNT_EMPTY_STRING_PANICS") THEN ResD(d, [t |-> "dead"], "D_BITCOUNT_EMPTY_STRING_PANICS")
        ELSE IF Len(a) >= 3 /\ Has(d, k) /\ emu # ideal /\ On("D_BITCOUNT_START_BEYOND_END_CLAMPED") THEN ResD(d, RInt(emu), "D_BITCOUNT_START_BEYOND_END_CLAMPED")
        ELSE Res(d, RInt(ideal))

\* first position in lo..hi (bit indexes) whose bit equals b, or -1
FirstBit(s, lo, hi, b) == IF \E j \in lo..hi : BitAt(s, j) = b
                          THEN CHOOSE j \in lo..hi : BitAt(s, j) = b /\ \A m \in lo..(j - 1) : BitAt(s, m) # b
                          ELSE -1

(* What the emulator's BITPOS computes instead (transcribed from bitMath.go:findBit): negative indexes
   that reach before the string are only clamped for start; in BYTE mode the end index denotes the first
   bit of the end byte; a partial last byte is scanned completely (beyond the end bit); an empty string
   with a start before the beginning indexes out of range.  ui = 8 for BYTE, 1 for BIT.              *)
EmuBitPos(s, si, ei, ui, sb, noEnd) ==
    LET bits == 8 * Len(s)
        end == bits - 1
        sB0 == IF si < 0 THEN bits + si * ui ELSE si * ui
        eB0 == IF ei < 0 THEN bits + ei * ui ELSE ei * ui
        startBit == IF sB0 < 0 THEN 0 ELSE sB0
        endBit == IF eB0 > end THEN end ELSE eB0
        sByte == startBit \div 8
        eByte == endBit \div 8
        partial == startBit % 8 # 0
        r1 == IF partial THEN (IF sByte = eByte THEN startBit..endBit ELSE startBit..(sByte * 8 + 7)) ELSE {}
        fb == IF partial THEN sByte + 1 ELSE sByte
        fullEnd == IF endBit % 8 = 7 THEN eByte ELSE eByte - 1
        r2 == IF fb <= fullEnd THEN (fb * 8)..(fullEnd * 8 + 7) ELSE {}
        idxAfter == IF fb <= fullEnd THEN fullEnd + 1 ELSE fb
        r3 == IF idxAfter = eByte THEN (eByte * 8)..(eByte * 8 + 7) ELSE {}
        hits == {p \in r1 \cup r2 \cup r3 : BitAt(s, p) = sb}
    IN  IF sB0 >= 0 /\ sB0 > end THEN [dead |-> FALSE, p |-> -1]
        ELSE IF eB0 < startBit THEN [dead |-> FALSE, p |-> -1]
        ELSE IF bits = 0 THEN [dead |-> TRUE, p |-> -1]
        ELSE IF hits # {} THEN [dead |-> FALSE, p |-> CHOOSE p \in hits : \A q \in hits : p <= q]
        ELSE [dead |-> FALSE, p |-> IF sb = 0 /\ noEnd THEN bits ELSE -1]

\* BITPOS key bit [start [end [BYTE|BIT]]]
BitPos(d, a) ==
    LET k == a[1]
        s == StrOf(d, k)
        b == ArgInt(a[2])
        st == IF Len(a) >= 3 THEN ArgInt(a[3]) ELSE [ok |-> TRUE, v |-> 0]
        en == IF Len(a) >= 4 THEN ArgInt(a[4]) ELSE [ok |-> TRUE, v |-> -1]
        endGiven == Len(a) >= 4
        bit == Len(a) = 5 /\ Is(a[5], "BIT")
        unitOk == Len(a) <= 4 \/ Is(a[5], "BIT") \/ Is(a[5], "BYTE")
        n == IF bit THEN 8 * Len(s) ELSE Len(s)
        r == NormIdx(n, st.v, en.v)
        lo == IF bit THEN r.lo ELSE 8 * r.lo
        hi == IF bit THEN r.hi ELSE 8 * r.hi + 7
        p == FirstBit(s, lo, hi, b.v)
        ideal == IF r.empty THEN -1
                 ELSE IF p >= 0 THEN p
                 ELSE IF b.v = 0 /\ ~endGiven THEN hi + 1 ELSE -1
        emu == EmuBitPos(s, st.v, en.v, IF bit THEN 1 ELSE 8, b.v, ~endGiven)
    IN  IF Len(a) < 2 \/ Len(a) > 5 \/ ~b.ok \/ ~st.ok \/ ~en.ok \/ ~unitOk THEN Fail(d, EArg)
        ELSE IF b.v \notin {0, 1} THEN Fail(d, IF WrongType(d, k, "string") THEN RErr("ERR|WRONGTYPE") ELSE RErr("ERR"))
        ELSE IF WrongType(d, k, "string") THEN Fail(d, WT)
        ELSE IF ~Has(d, k) THEN Res(d, RInt(IF b.v = 1 THEN -1 ELSE 0))
        ELSE IF emu.dead /\ On("D_BITPOS_EMPTY_STRING_PANICS") THEN ResD(d, [t |-> "dead"], "D_BITPOS_EMPTY_STRING_PANICS")
        ELSE IF ~emu.dead /\ emu.p # ideal /\ On("D_BITPOS_RANGE_SEMANTICS") THEN ResD(d, RInt(emu.p), "D_BITPOS_RANGE_SEMANTICS")
        \* (ideal: searching for a clear bit in a range that is all ones: the string is treated as followed by
        \* zeros unless the caller gave an explicit end)
        ELSE Res(d, RInt(ideal))

\* BITOP AND|OR|XOR dest src... / NOT dest src
ByteOp(op, x, y) ==
    LET bits == {j \in 0..7 : LET p == (x \div Pow2Int(j)) % 2
                                  q == (y \div Pow2Int(j)) % 2
                              IN  CASE op = "and" -> p = 1 /\ q = 1
                                    [] op = "or" -> p = 1 \/ q = 1
                                    [] OTHER -> p # q}
    IN  IF bits = {} THEN 0 ELSE LET sq == SetToSeq(bits) IN FoldLeft(LAMBDA acc, j : acc + Pow2Int(j), 0, sq)
RECURSIVE FoldOp(_, _, _, _)
FoldOp(op, acc, srcs, n) ==
    IF srcs = <<>> THEN acc
    ELSE FoldOp(op, [j \in 1..n |-> ByteOp(op, acc[j], ZeroExt(Head(srcs), n)[j])], Tail(srcs), n)

BitOp(d, a) ==
    LET op == CASE Is(a[1], "AND") -> "and" [] Is(a[1], "OR") -> "or" [] Is(a[1], "XOR") -> "xor" [] Is(a[1], "NOT") -> "not" [] OTHER -> "?"
        dst == a[2]
        ks == SubSeq(a, 3, Len(a))
        srcs == [j \in 1..Len(ks) |-> StrOf(d, ks[j])]
        n == IF Len(ks) = 0 THEN 0 ELSE FoldLeft(LAMBDA acc, sx : Max2(acc, Len(sx)), 0, srcs)
        res == IF op = "not" THEN [j \in 1..n |-> 255 - srcs[1][j]]
               ELSE FoldOp(op, ZeroExt(srcs[1], n), Tail(srcs), n)
    IN  IF Len(a) < 3 \/ op = "?" \/ (op = "not" /\ Len(ks) # 1) THEN Fail(d, EArg)
        ELSE IF \E j \in 1..Len(ks) : WrongType(d, ks[j], "string") THEN Fail(d, WT)
        ELSE IF n = 0 THEN
             (IF On("D_BITOP_EMPTY_RESULT_CREATES_EMPTY_STRING") THEN ResD(Put(d, dst, VStr(<<>>, 0)), RInt(0), "D_BITOP_EMPTY_RESULT_CREATES_EMPTY_STRING")
              ELSE Res(Del(d, dst), RInt(0)))
        ELSE Res(Put(d, dst, VStr(res, 0)), RInt(n))

-----------------------------------------------------------------------------
(* BITFIELD *)
(* TLC passes operator arguments lazily: a recursive operator with an accumulator builds nested thunks that
   are re-evaluated at every mention (exponential).  Accumulations therefore use FoldLeft (evaluated eagerly). *)
Upto(n) == [j \in 1..n |-> j]
Pow2Seq == FoldLeft(LAMBDA acc, j : Append(acc, NumAdd(acc[Len(acc)], acc[Len(acc)])), <<IntToNum(1)>>, Upto(64))
Pow2Tab == [n \in 0..64 |-> Pow2Seq[n + 1]]
NumPow2(n) == Pow2Tab[n]

\* unsigned value of the w bits starting at bit offset o
FieldU(s, o, w) == FoldLeft(LAMBDA acc, j : NumAdd(NumAdd(acc, acc), IntToNum(BitAt(s, o + j - 1))), NumZero, Upto(w))
FieldVal(s, o, w, signed) ==
    LET u == FieldU(s, o, w)
    IN  IF signed /\ NumCmp(u, Pow2Tab[w - 1]) >= 0 THEN NumSub(u, Pow2Tab[w]) ELSE u

\* write the unsigned w-bit value u (0 <= u < 2^w) at bit offset o (string long enough), most significant bit first
PutField(s, o, w, u) ==
    FoldLeft(LAMBDA acc, j : LET top == Pow2Tab[w - j]
                                 one == NumCmp(acc.u, top) >= 0
                             IN  [s |-> WithBit(acc.s, o + j - 1, IF one THEN 1 ELSE 0), u |-> IF one THEN NumSub(acc.u, top) ELSE acc.u],
             [s |-> s, u |-> u], Upto(w)).s

MinOf(w, signed) == IF signed THEN NumNeg(Pow2Tab[w - 1]) ELSE NumZero
MaxOf(w, signed) == IF signed THEN NumSub(Pow2Tab[w - 1], IntToNum(1)) ELSE NumSub(Pow2Tab[w], IntToNum(1))
\* v modulo 2^w as a value of the type: by integer arithmetic for narrow types and small values, by adding /
\* subtracting 2^w otherwise (the bounded models keep wide values within two wraps of the range)
RECURSIVE WrapLoop(_, _, _, _)
WrapLoop(v, w, signed, fuel) ==
    IF fuel = 0 THEN v
    ELSE IF NumCmp(v, MaxOf(w, signed)) > 0 THEN WrapLoop(NumSub(v, Pow2Tab[w]), w, signed, fuel - 1)
    ELSE IF NumCmp(v, MinOf(w, signed)) < 0 THEN WrapLoop(NumAdd(v, Pow2Tab[w]), w, signed, fuel - 1)
    ELSE v
WrapTo(v, w, signed, fuel) ==
    IF w <= 29 /\ IsSmall(v)
    THEN LET m == 2 ^ w
             u == ((NumToInt(v) % m) + m) % m
         IN  IntToNum(IF signed /\ u >= m \div 2 THEN u - m ELSE u)
    ELSE WrapLoop(v, w, signed, fuel)
ToUnsigned(v, w) == IF v.neg THEN NumAdd(v, Pow2Tab[w]) ELSE v

\* type "i8" / "u16": [ok, signed, w]
ParseEnc(bs) ==
    LET sg == bs # <<>> /\ bs[1] = 105       \* 'i' / 'u', lower case only
        us == bs # <<>> /\ bs[1] = 117
        n == ArgInt(Tail(bs))
    IN  IF (sg \/ us) /\ Len(bs) >= 2 /\ n.ok /\ n.v >= 1 /\ ((sg /\ n.v <= 64) \/ (us /\ n.v <= 63))
        THEN [ok |-> TRUE, signed |-> sg, w |-> n.v] ELSE [ok |-> FALSE, signed |-> FALSE, w |-> 1]
\* offset "12" or "#3" (multiplied by the width)
ParseOff(bs, w) ==
    LET hash == bs # <<>> /\ bs[1] = 35
        n == ArgInt(IF hash THEN Tail(bs) ELSE bs)
    IN  IF n.ok /\ n.v >= 0 THEN [ok |-> TRUE, o |-> IF hash THEN n.v * w ELSE n.v] ELSE [ok |-> FALSE, o |-> 0]

(* the sub-commands are executed left to right on the evolving string;
   st = [s (current bytes), out (replies), of (overflow mode), ok, changed] *)
RECURSIVE BfRun(_, _, _)
BfRun(ops, st, ro) ==
    IF ops = <<>> \/ ~st.ok THEN st
    ELSE IF Is(ops[1], "OVERFLOW") /\ ~ro THEN
         (IF Len(ops) >= 2 /\ (Is(ops[2], "WRAP") \/ Is(ops[2], "SAT") \/ Is(ops[2], "FAIL"))
          THEN BfRun(SubSeq(ops, 3, Len(ops)), [st EXCEPT !.of = Upper(ops[2])], ro)
          ELSE [st EXCEPT !.ok = FALSE])
    ELSE IF Is(ops[1], "GET") THEN
         (IF Len(ops) < 3 THEN [st EXCEPT !.ok = FALSE]
          ELSE LET e == ParseEnc(ops[2])
                   o == ParseOff(ops[3], e.w)
               IN  IF ~e.ok \/ ~o.ok THEN [st EXCEPT !.ok = FALSE]
                   ELSE BfRun(SubSeq(ops, 4, Len(ops)),
                              [st EXCEPT !.out = Append(@, RIntD(NumToBytes(FieldVal(st.s, o.o, e.w, e.signed))))], ro))
    ELSE IF (Is(ops[1], "SET") \/ Is(ops[1], "INCRBY")) /\ ~ro THEN
         (IF Len(ops) < 4 THEN [st EXCEPT !.ok = FALSE]
          ELSE LET e == ParseEnc(ops[2])
                   o == ParseOff(ops[3], e.w)
                   v == ParseI64(ops[4])
                   isSet == Is(ops[1], "SET")
                   s1 == ZeroExt(st.s, (o.o + e.w - 1) \div 8 + 1)
                   old == FieldVal(s1, o.o, e.w, e.signed)
                   want == IF isSet THEN v.num ELSE NumAdd(old, v.num)
                   outOf(q) == NumCmp(q, MaxOf(e.w, e.signed)) > 0 \/ NumCmp(q, MinOf(e.w, e.signed)) < 0
                   idealOver == outOf(want)
                   \* the emulator's "does old + b overflow" test; for i64 its own bounds computation wraps around
                   w64 == e.w = 64 /\ e.signed /\ On("D_BITFIELD_I64_OVERFLOW_TEST_WRAPS")
                   sumOver(b) == IF w64
                                 THEN (IF NumCmp(b, NumZero) > 0 THEN NumCmp(b, WrapLoop(NumSub(NumMaxI64, old), 64, TRUE, 2)) > 0
                                       ELSE NumCmp(b, WrapLoop(NumSub(NumMinI64, old), 64, TRUE, 2)) < 0)
                                 ELSE outOf(NumAdd(old, b))
                   \* ... which it also applies to a signed SET (where only the value itself matters)
                   setDev == isSet /\ e.signed /\ On("D_BITFIELD_SIGNED_SET_USES_SUM_OVERFLOW_TEST")
                   emuOver == IF isSet THEN (IF setDev THEN sumOver(v.num) ELSE idealOver) ELSE sumOver(v.num)
                   differs == st.of # B("WRAP") /\ emuOver # idealOver
                   over == IF differs THEN emuOver ELSE idealOver
                   dvNow == IF ~differs THEN {}
                            ELSE (IF setDev /\ outOf(NumAdd(old, v.num)) # idealOver THEN {"D_BITFIELD_SIGNED_SET_USES_SUM_OVERFLOW_TEST"} ELSE {})
                                 \cup (IF w64 /\ sumOver(v.num) # outOf(NumAdd(old, v.num)) THEN {"D_BITFIELD_I64_OVERFLOW_TEST_WRAPS"} ELSE {})
                   new == IF ~over THEN (IF differs THEN WrapTo(want, e.w, e.signed, 4) ELSE want)
                          ELSE IF st.of = B("SAT") THEN
                               (IF differs THEN (IF want.neg THEN MinOf(e.w, e.signed) ELSE MaxOf(e.w, e.signed))
                                ELSE IF NumCmp(want, MaxOf(e.w, e.signed)) > 0 THEN MaxOf(e.w, e.signed) ELSE MinOf(e.w, e.signed))
                          ELSE WrapTo(want, e.w, e.signed, 4)
                   s2 == PutField(s1, o.o, e.w, ToUnsigned(new, e.w))
               IN  IF ~e.ok \/ ~o.ok THEN [st EXCEPT !.ok = FALSE]
                   ELSE IF ~v.ok THEN [st EXCEPT !.ok = FALSE, !.dv = IF On("D_BITFIELD_NON_INTEGER_VALUE_EMPTY_ERROR") THEN {"D_BITFIELD_NON_INTEGER_VALUE_EMPTY_ERROR"} ELSE {}]
                   ELSE IF over /\ st.of = B("FAIL")
                        THEN BfRun(SubSeq(ops, 5, Len(ops)), [st EXCEPT !.out = Append(@, RNil),
                                   !.dv = @ \cup dvNow], ro)
                   ELSE BfRun(SubSeq(ops, 5, Len(ops)),
                              [st EXCEPT !.s = s2, !.changed = TRUE,
                                         !.dv = @ \cup dvNow,
                                         !.out = Append(@, RIntD(NumToBytes(IF isSet THEN old ELSE new)))], ro))
    ELSE [st EXCEPT !.ok = FALSE]

BitField(d, a, ro) ==
    LET k == a[1]
        st == BfRun(Tail(a), [s |-> StrOf(d, k), out |-> <<>>, of |-> B("WRAP"), ok |-> TRUE, changed |-> FALSE, dv |-> {}], ro)
    IN  IF Len(a) < 1 THEN Fail(d, EArg)
        ELSE IF ~st.ok /\ st.dv # {} THEN [Fail(d, RErr("")) EXCEPT !.dv = st.dv]      \* an error reply with an empty text
        ELSE IF ~st.ok THEN Fail(d, IF WrongType(d, k, "string") THEN RErr("ERR|WRONGTYPE") ELSE EArg)
        ELSE IF WrongType(d, k, "string") THEN Fail(d, WT)
        ELSE IF st.changed THEN [Res(Put(d, k, VStr(st.s, ExpOf(d, k))), RArr(st.out)) EXCEPT !.dv = st.dv]
        ELSE [Res(d, RArr(st.out)) EXCEPT !.dv = st.dv]

=============================================================================
