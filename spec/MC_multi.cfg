SPECIFICATION TSpec
CONSTANTS
  OpenDev = {}
  States <- MultiStates
  Vocab <- MultiVocab
  TreeOk <- AnyProg
  Depth = 3
  CmdU = {}
  Relevant <- AllRelevant
  Fam = "multi"
ACTION_CONSTRAINT TEmit
INVARIANT TWellFormed
PROPERTY SessionIsolation
PROPERTY NamespaceIsolation
PROPERTY FlushGlobal
CHECK_DEADLOCK FALSE
