------------------------------- MODULE Blocking -----------------------------
(***************************************************************************)
(* C11 / C12: blocking pops on top of Server.  BApply(S, c, cmd) is what    *)
(* happens when connection c issues cmd - or one of the pseudo steps of the *)
(* replay harness - including everything that follows atomically from it:  *)
(* blocked clients whose list became non-empty are served, longest waiting  *)
(* first, and get their (deferred) reply.                                   *)
(*                                                                         *)
(* session.blk  = [on |-> FALSE] or [on, nm, a, deadline (0 = never),       *)
(*                 since (queue position), ub (unblock requested while the  *)
(*                 client was held at a gate: "none" | "timeout" | "error"),*)
(*                 zombie (connection gone but still queued - deviation),   *)
(*                 unreg (no longer registered for wake-ups - deviation)]   *)
(* session.gate = the verif schedule point this client is to be held at     *)
(*                ("none" | "before_register" | "after_register" |          *)
(*                 "before_capture" | "captured" | "after_wake")            *)
(* session.parked = the client is held there now (it does nothing until     *)
(*                released: it is not served, does not time out)            *)
(*                                                                         *)
(* Pseudo steps (first word starts with '@'): @gate <point>, @release,      *)
(* @close (the client closes its socket).  "@ID:<n>" in an argument stands  *)
(* for the client id of connection n.                                       *)
(***************************************************************************)
EXTENDS Server

NoBlk == [on |-> FALSE]
BRes(S, r, dv, deferred) == [S |-> S, r |-> r, dv |-> dv, rel |-> {}, tol |-> {}, deferred |-> deferred]
IsBlocked(S, c) == S.conn[c].blk.on
IdArg(bs) == IF Len(bs) >= 5 /\ SubSeq(bs, 1, 4) = B("@ID:") THEN ArgInt(SubSeq(bs, 5, Len(bs))) ELSE [ok |-> FALSE, v |-> 0]
EarlyGates == {"before_register", "after_register", "before_capture"}

\* the attempt of blocked client x in state S
Attempt(S, x) == TryB(Live(DbOf(S, x), S.now), S.conn[x].blk.nm, S.conn[x].blk.a)
Serviceable(S, x) == /\ S.conn[x].blk.on /\ ~S.conn[x].parked /\ ~S.conn[x].blk.unreg
                     /\ (~S.conn[x].closed \/ S.conn[x].blk.zombie)
                     /\ Attempt(S, x).r.t # "nil"

(* Serve blocked clients until nobody can be served: acc = [S, deferred, dv, wake].
   Ideal: every blocked client whose attempt would succeed is served, longest waiting first.
   The emulator only wakes waiters from the push family (LPUSH RPUSH LPUSHX RPUSHX, the destination of
   LMOVE / RPOPLPUSH and their blocking forms), at most as many as elements were pushed: acc.wake maps the
   keys written by the current command to the number of waiters it may wake ("all": no restriction).  *)
WaitsOn(S, x, k) == \E j \in 1..Len(BKeys(S.conn[x].blk.nm, S.conn[x].blk.a)) : BKeys(S.conn[x].blk.nm, S.conn[x].blk.a)[j] = k
Woken(acc, x) == acc.all \/ \E k \in DOMAIN acc.wake : acc.wake[k] > 0 /\ WaitsOn(acc.S, x, k)
RECURSIVE ServeAll(_)
ServeAll(acc) ==
    LET S == acc.S
        cand == {x \in DOMAIN S.conn : Serviceable(S, x) /\ Woken(acc, x)}
        \* clients held at a gate AFTER they registered are in the wait queue: if one of them is the longest
        \* waiter the wake-up goes to it, and it only acts when it is released
        held == {h \in DOMAIN S.conn :
                        /\ S.conn[h].blk.on /\ S.conn[h].parked /\ ~S.conn[h].closed /\ ~S.conn[h].blk.tok
                        /\ S.conn[h].gate \in {"after_register", "before_capture", "captured"}
                        /\ Attempt(S, h).r.t # "nil" /\ Woken(acc, h)}
        heldFirst == \E h \in held : \A y \in cand : S.conn[h].blk.since <= S.conn[y].blk.since
        hf == CHOOSE h \in held : \A y \in cand \cup held : S.conn[h].blk.since <= S.conn[y].blk.since
    IN  IF heldFirst THEN [acc EXCEPT !.S.conn[hf].blk.tok = TRUE]     \* it now holds the wake-up token
        ELSE IF cand = {} THEN acc
        \* (acc.rev: the reading in which, of several waiters woken at once, the LATEST retries first - see FinishCmd)
        \* (only the waiters that actually hold a wake-up can race: the first n of the queue, n = wake-ups still to hand out)
        ELSE LET nw == FoldFunctionOnSet(+, 0, acc.wake, DOMAIN acc.wake)
                 woken == {w \in cand : Cardinality({y \in cand : S.conn[y].blk.since < S.conn[w].blk.since}) < nw}
                 x == IF acc.rev /\ woken # {} THEN CHOOSE w \in woken : \A y \in woken : S.conn[w].blk.since >= S.conn[y].blk.since
                      ELSE CHOOSE w \in cand : \A y \in cand : S.conn[w].blk.since <= S.conn[y].blk.since
                 res == Attempt(S, x)
                 \* a client that is to be held at after_wake is woken but not served: it parks, the element stays
                 hold == S.conn[x].gate = "after_wake"
                 S2 == IF hold THEN [S EXCEPT !.conn[x].parked = TRUE]
                       ELSE [WithDb(S, x, KeepExpired(DbOf(S, x), S.now, res.db)) EXCEPT !.conn[x].blk = NoBlk]
                 \* one wake-up of the key is used up; a served BLMOVE / BRPOPLPUSH pushes to its destination
                 wk == IF acc.all THEN <<>>
                       ELSE LET k0 == CHOOSE k \in DOMAIN acc.wake : acc.wake[k] > 0 /\ WaitsOn(S, x, k)
                                used == [acc.wake EXCEPT ![k0] = @ - 1]
                                dst == IF ~hold /\ S.conn[x].blk.nm \in {"BLMOVE", "BRPOPLPUSH"} /\ res.r.t = "bulk" THEN {S.conn[x].blk.a[2]} ELSE {}
                            IN  [k \in DOMAIN used \cup dst |-> (IF k \in DOMAIN used THEN used[k] ELSE 0) + (IF k \in dst THEN 1 ELSE 0)]
             IN  IF hold THEN [acc EXCEPT !.S = S2]        \* (the model serves nobody else from this push, see MC_block)
                 ELSE ServeAll([S |-> S2, wake |-> wk, all |-> acc.all, rev |-> acc.rev,
                                deferred |-> IF S.conn[x].closed THEN acc.deferred ELSE Append(acc.deferred, [c |-> x, r |-> res.r]),
                                dv |-> acc.dv \cup res.dv \cup (IF S.conn[x].closed THEN {"D_CLOSED_BLOCKED_CLIENT_STILL_CONSUMES"} ELSE {})])

\* the waiters the emulator wakes for a command (key -> number of wake-ups): one per element by which a list of
\* database 0 has grown (pushes; since the repair of KF-C11-02 also RENAME / COPY / RESTORE / SORT STORE)
ListLen(d, k) == IF k \in DOMAIN d /\ d[k].ty = "list" THEN Len(d[k].l) ELSE 0
EmuWake(S0, S1) ==
    LET grown == {k \in DOMAIN S1.dbs[0] : ListLen(S1.dbs[0], k) > ListLen(S0.dbs[0], k)}
    IN  [k \in grown |-> ListLen(S1.dbs[0], k) - ListLen(S0.dbs[0], k)]
\* the waiters the emulator woke before that repair: only the push family
EmuWakeOld(nm, a, r) ==
    CASE nm \in {"LPUSH", "RPUSH", "LPUSHX", "RPUSHX"} /\ Len(a) >= 2 /\ r.t = "int" -> (a[1] :> Len(a) - 1)
      [] nm \in {"LMOVE", "RPOPLPUSH", "BLMOVE", "BRPOPLPUSH"} /\ Len(a) >= 2 /\ r.t = "bulk" -> (a[2] :> 1)
      [] OTHER -> <<>>
Finish(S0, S, r, dv, deferred, nm) ==
    LET sv == ServeAll([S |-> S, deferred |-> deferred, dv |-> dv, wake |-> <<>>, all |-> TRUE, rev |-> FALSE])
    IN  BRes(Flag(S0, sv.S, nm), r, sv.dv, sv.deferred)
\* as Finish, for a command with arguments a and reply r.  Ideal: every waiter that can be served is served, longest
\* waiter first.  The emulator hands out one wake-up per new element to the head of the key's queue: a woken waiter
\* that cannot take the element (its destination is not a list) does not pass the wake-up on, and one wake-up is
\* all a waiter gets even if it could take more - where that differs from the ideal outcome the step is tagged.
FinishCmd(S0, S, r, dv, nm, a) ==
    LET ideal == ServeAll([S |-> S, deferred |-> <<>>, dv |-> dv, wake |-> <<>>, all |-> TRUE, rev |-> FALSE])
        old == On("D_ONLY_PUSH_COMMANDS_WAKE_BLOCKED_CLIENTS")
        wk == IF old THEN EmuWakeOld(nm, a, r) ELSE EmuWake(S0, S)
        emu == ServeAll([S |-> S, deferred |-> <<>>, dv |-> dv, wake |-> wk, all |-> FALSE, rev |-> FALSE])
        \* several waiters woken by one command retry in the order the Go scheduler runs them: the other order
        emuR == ServeAll([S |-> S, deferred |-> <<>>, dv |-> dv, wake |-> wk, all |-> FALSE, rev |-> TRUE])
        dev == IF old THEN "D_ONLY_PUSH_COMMANDS_WAKE_BLOCKED_CLIENTS" ELSE "D_ONE_WAKEUP_PER_ELEMENT_NOT_PASSED_ON"
        differs(e) == e.S # ideal.S \/ e.deferred # ideal.deferred
        useEmu == On(dev) /\ differs(emu)
        useRace == ~useEmu /\ On("D_WOKEN_WAITERS_RETRY_IN_ANY_ORDER") /\ differs(emuR)
        sv == IF useEmu THEN emu ELSE IF useRace THEN emuR ELSE ideal
    IN  BRes(Flag(S0, sv.S, nm), r,
             sv.dv \cup (IF useEmu THEN {dev} ELSE IF useRace THEN {"D_WOKEN_WAITERS_RETRY_IN_ANY_ORDER"} ELSE {}), sv.deferred)

\* the reply that ends a block without an element
EndReply(mode) == IF mode = "error" THEN RErr("UNBLOCKED") ELSE RNil

BApply(S, c, cmd) ==
    LET ss == S.conn[c]
        nm == CmdName(cmd)
        a == Tail(cmd)
        ctl == cmd # <<>> /\ cmd[1] # <<>> /\ cmd[1][1] = 64         \* '@'
    IN  IF ss.closed \/ (ss.blk.on /\ ~ctl) THEN BRes(S, [t |-> "skip"], {}, <<>>)
        ELSE IF ctl /\ cmd[1] = B("@gate") THEN
             BRes([S EXCEPT !.conn[c].gate = CHOOSE g \in {"before_register", "after_register", "before_capture", "captured", "after_wake"} : B(g) = cmd[2]],
                  [t |-> "ctl"], {}, <<>>)
        ELSE IF ctl /\ cmd[1] = B("@release") THEN
             \* the held client continues: a pending unblock ends its block, an expired deadline too, otherwise it
             \* retries (ServeAll) and keeps waiting if there is nothing for it
             LET S1 == [S EXCEPT !.conn[c].gate = "none", !.conn[c].parked = FALSE]
                 wasWoken == ss.parked /\ ss.blk.on /\ (ss.gate = "after_wake" \/ ss.blk.tok)
                 \* the emulator tries again only right after it registered and after a wake-up: a client released at
                 \* before_capture / captured goes into its select and is served only if a push left it a token
                 noRetry == /\ ss.parked /\ ss.blk.on /\ ss.gate \in {"before_capture", "captured"} /\ ~ss.blk.tok
                            /\ On("D_ONLY_PUSH_COMMANDS_WAKE_BLOCKED_CLIENTS")
             \* (a client that never reached its gate - e.g. it was to be held at after_wake and nothing woke it - is not
             \*  waiting at the gate: releasing it changes nothing)
             IN  IF ~ss.blk.on \/ ~ss.parked THEN BRes(S1, [t |-> "ctl"], {}, <<>>)
                 ELSE IF ss.blk.ub # "none" THEN Finish(S, [S1 EXCEPT !.conn[c].blk = NoBlk], [t |-> "ctl"], {}, <<[c |-> c, r |-> EndReply(ss.blk.ub)]>>, "release")
                 ELSE IF Attempt(S1, c).r.t # "nil" /\ noRetry THEN BRes(S1, [t |-> "ctl"], {"D_ONLY_PUSH_COMMANDS_WAKE_BLOCKED_CLIENTS"}, <<>>)
                 ELSE IF Attempt(S1, c).r.t # "nil" THEN Finish(S, S1, [t |-> "ctl"], {}, <<>>, "release")
                 ELSE IF ss.blk.deadline # 0 /\ ss.blk.deadline <= S.now THEN
                      Finish(S, [S1 EXCEPT !.conn[c].blk = NoBlk], [t |-> "ctl"], {}, <<[c |-> c, r |-> RNil]>>, "release")
                 \* woken, but somebody else took the element: the emulator goes back to waiting WITHOUT registering again
                 ELSE IF wasWoken /\ On("D_WOKEN_WAITER_NOT_REREGISTERED")
                      THEN BRes([S1 EXCEPT !.conn[c].blk.unreg = TRUE], [t |-> "ctl"], {"D_WOKEN_WAITER_NOT_REREGISTERED"}, <<>>)
                 \* (since the repair of the above) it registers again - at the tail of the wait queue: it has lost its place
                 \* as the longest waiter
                 ELSE IF wasWoken /\ On("D_REREGISTERED_WAITER_QUEUES_AT_THE_TAIL")
                      THEN BRes([S1 EXCEPT !.conn[c].blk.since = S.nid + 1, !.conn[c].blk.tok = FALSE, !.nid = S.nid + 1], [t |-> "ctl"],
                                {"D_REREGISTERED_WAITER_QUEUES_AT_THE_TAIL"}, <<>>)
                 ELSE BRes(S1, [t |-> "ctl"], {}, <<>>)
        ELSE IF ctl /\ cmd[1] = B("@close") THEN
             IF ss.blk.on /\ On("D_CLOSED_BLOCKED_CLIENT_STILL_CONSUMES")
             THEN BRes([S EXCEPT !.conn[c].closed = TRUE, !.conn[c].blk.zombie = TRUE], [t |-> "ctl"], {}, <<>>)
             ELSE BRes([S EXCEPT !.conn[c].closed = TRUE, !.conn[c].blk = NoBlk, !.conn[c].multi = "off", !.conn[c].queue = <<>>], [t |-> "ctl"], {}, <<>>)
        ELSE IF ctl THEN BRes(S, [t |-> "skip"], {}, <<>>)
        ELSE IF nm \in BNames /\ ss.multi = "off" THEN
             LET res == TryB(Live(DbOf(S, c), S.now), nm, a)
                 tm == TimeoutMs(BTimeoutArg(nm, a))
             IN  IF res.r.t # "nil" THEN
                      Finish(S, WithDb(S, c, KeepExpired(DbOf(S, c), S.now, res.db)), res.r, res.dv, <<>>, nm)
                 ELSE BRes([S EXCEPT !.conn[c].blk = [on |-> TRUE, nm |-> nm, a |-> a, deadline |-> IF tm.ms = 0 THEN 0 ELSE S.now + tm.ms,
                                                     since |-> S.nid + 1, ub |-> "none", zombie |-> FALSE, listed |-> TRUE, unreg |-> FALSE, tok |-> FALSE],
                                      !.conn[c].parked = ss.gate \in EarlyGates \cup {"captured"},
                                      !.nid = S.nid + 1],
                           [t |-> "blocked"], {}, <<>>)
        ELSE IF nm = "CLIENT" /\ Len(a) >= 2 /\ Is(a[1], "UNBLOCK") /\ ss.multi = "off" THEN
             LET id == IdArg(a[2])
                 x == id.v
                 mode == IF Len(a) = 3 /\ Is(a[3], "ERROR") THEN "error" ELSE "timeout"
                 okArgs == id.ok /\ (Len(a) = 2 \/ (Len(a) = 3 /\ (Is(a[3], "ERROR") \/ Is(a[3], "TIMEOUT"))))
                 \* a blocked client whose socket is gone is still in the emulator's client table (zombie)
                 zomb == x \in DOMAIN S.conn /\ S.conn[x].closed /\ S.conn[x].blk.on /\ S.conn[x].blk.zombie /\ S.conn[x].blk.listed
                 zdv == IF zomb THEN {"D_CLOSED_BLOCKED_CLIENT_STILL_CONSUMES"} ELSE {}
                 exists == x \in DOMAIN S.conn /\ (~S.conn[x].closed \/ zomb)
                 blocked == exists /\ S.conn[x].blk.on
                 \* the emulator only reaches a client that has passed its capture step and is still in its select
                 lost == blocked /\ S.conn[x].parked /\ S.conn[x].gate \in EarlyGates \cup {"after_wake"}
             IN  IF ~okArgs THEN BRes(S, EArg, {}, <<>>)
                 ELSE IF ~blocked THEN
                      (IF exists /\ On("D_CLIENT_UNBLOCK_REPLIES_1_WHEN_NOT_BLOCKED") THEN BRes(S, RInt(1), {"D_CLIENT_UNBLOCK_REPLIES_1_WHEN_NOT_BLOCKED"}, <<>>)
                       ELSE BRes(S, RInt(0), {}, <<>>))
                 \* (it answers 1 only when it found the target captured: a target woken and held at after_wake is still
                 \* captured, one held before its capture step is not)
                 ELSE IF lost /\ On("D_UNBLOCK_LOST_OUTSIDE_SELECT")
                      THEN BRes(S, RInt(IF S.conn[x].gate = "after_wake" THEN 1 ELSE 0), {"D_UNBLOCK_LOST_OUTSIDE_SELECT"} \cup zdv, <<>>)
                 ELSE IF S.conn[x].parked THEN BRes([S EXCEPT !.conn[x].blk.ub = mode], RInt(1), zdv, <<>>)
                 ELSE Finish(S, [S EXCEPT !.conn[x].blk = NoBlk], RInt(1), zdv,
                             IF zomb THEN <<>> ELSE <<[c |-> x, r |-> EndReply(mode)]>>, "CLIENT")
        ELSE IF nm = "CLIENT" /\ Len(a) = 3 /\ Is(a[1], "KILL") /\ Is(a[2], "ID") /\ ss.multi = "off" THEN
             LET id == IdArg(a[3])
                 x == id.v
                 zomb == id.ok /\ x \in DOMAIN S.conn /\ S.conn[x].closed /\ S.conn[x].blk.on /\ S.conn[x].blk.zombie /\ S.conn[x].blk.listed
                 exists == id.ok /\ x \in DOMAIN S.conn /\ ~S.conn[x].closed /\ x # c
             IN  IF zomb THEN BRes([S EXCEPT !.conn[x].blk.listed = FALSE], RInt(1), {"D_CLOSED_BLOCKED_CLIENT_STILL_CONSUMES"}, <<>>)
                 ELSE IF ~exists THEN BRes(S, RInt(0), {}, <<>>)
                 ELSE IF S.conn[x].blk.on /\ On("D_CLOSED_BLOCKED_CLIENT_STILL_CONSUMES")
                      THEN BRes([S EXCEPT !.conn[x].closed = TRUE, !.conn[x].blk.zombie = TRUE, !.conn[x].blk.listed = FALSE], RInt(1), {}, <<>>)
                 ELSE BRes([S EXCEPT !.conn[x].closed = TRUE, !.conn[x].blk = NoBlk, !.conn[x].multi = "off", !.conn[x].queue = <<>>], RInt(1), {}, <<>>)
        ELSE LET res == Apply(S, c, cmd)
             IN  FinishCmd(S, res.S, res.r, res.dv, nm, a)

\* dt ms pass: blocked clients (not held at a gate) whose deadline is reached get a null reply
BTick(S, dt) ==
    LET S1 == Tick(S, dt)
        exp == {x \in DOMAIN S1.conn : S1.conn[x].blk.on /\ ~S1.conn[x].parked /\ ~S1.conn[x].closed
                                         /\ S1.conn[x].blk.deadline # 0 /\ S1.conn[x].blk.deadline <= S1.now}
        sq == SetToSeq(exp)
    IN  BRes([S1 EXCEPT !.conn = [x \in DOMAIN S1.conn |-> IF x \in exp THEN [S1.conn[x] EXCEPT !.blk = NoBlk] ELSE S1.conn[x]]],
             [t |-> "tick"], {}, [j \in 1..Len(sq) |-> [c |-> sq[j], r |-> RNil]])

=============================================================================
