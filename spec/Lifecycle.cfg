SPECIFICATION LSpec
CONSTANTS
  Insts = {1, 2}
  Conns = {1, 2, 3}
  Acts = {"idle", "midpipe", "multi", "blocked"}
  MaxSteps = 6
INVARIANT ClosedMeansDisconnected
INVARIANT PortConsistent
INVARIANT NoSharedData
ACTION_CONSTRAINT LEmit
CHECK_DEADLOCK FALSE
