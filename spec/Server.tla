------------------------------- MODULE Server -------------------------------
(***************************************************************************)
(* The emulator as a client can observe it: sixteen databases, a clock,     *)
(* one session per connection.  Apply(S, c, cmd) is the atomic effect of    *)
(* connection c sending cmd in server state S.                              *)
(*                                                                         *)
(*   S.dbs   : [0..15 -> database]            (Store.tla)                   *)
(*   S.now   : model clock                                                  *)
(*   S.conn  : [connection ids -> session]                                  *)
(*   session : [db, proto, name, multi, queue, watch, dirty]                *)
(***************************************************************************)
EXTENDS Commands

DbIds == 0..15

NewSess == [db |-> 0, proto |-> 2, name |-> <<>>, multi |-> "off", queue |-> <<>>,
            watch |-> {}, cas |-> FALSE]

EmptyDbs == [i \in DbIds |-> EmptyDb]
InitServer(conns) == [dbs |-> EmptyDbs, now |-> 1000000, conn |-> [c \in conns |-> NewSess]]

\* result of Apply: successor state, reply, deviations used, deadline comparison hints
SRes(S, r, dv, rel, tol) == [S |-> S, r |-> r, dv |-> dv, rel |-> rel, tol |-> tol]
SOk(S, r) == SRes(S, r, {}, {}, {})

\* keys of database i that differ between two states (value, existence or deadline)
Changed(d1, d2) == {k \in DOMAIN d1 \cup DOMAIN d2 :
                      IF k \in DOMAIN d1 /\ k \in DOMAIN d2 THEN d1[k] # d2[k] ELSE TRUE}

\* a data command of connection c on its selected database
DataCmd(S, c, cmd) ==
    LET i == S.conn[c].db
        res == Exec1(S.dbs[i], S.now, cmd)
    IN  SRes([S EXCEPT !.dbs[i] = res.db], res.r, res.dv, res.rel, res.tol)

\* every stored object of database i, expired or not, counts for the emulator's DBSIZE
DbSize(S, c, a) ==
    LET i == S.conn[c].db
        live == Live(S.dbs[i], S.now)
    IN  IF Len(a) # 0 THEN SOk(S, EArg)
        ELSE IF On("D_DBSIZE_COUNTS_EXPIRED_KEYS") /\ DOMAIN live # DOMAIN S.dbs[i]
             THEN SRes(S, RInt(Cardinality(DOMAIN S.dbs[i])), {"D_DBSIZE_COUNTS_EXPIRED_KEYS"}, {}, {})
        ELSE SOk(S, RInt(Cardinality(DOMAIN live)))

Select(S, c, a) ==
    LET n == ArgInt(a[1])
    IN  IF Len(a) # 1 \/ ~n.ok THEN SOk(S, EArg)
        ELSE IF n.v \notin DbIds THEN SOk(S, RErr("ERR"))
        ELSE SOk([S EXCEPT !.conn[c].db = n.v], ROk)

FlushOk(a) == Len(a) = 0 \/ (Len(a) = 1 /\ (Is(a[1], "SYNC") \/ Is(a[1], "ASYNC")))
FlushDb(S, c, a) ==
    IF ~FlushOk(a) THEN SOk(S, EArg) ELSE SOk([S EXCEPT !.dbs[S.conn[c].db] = EmptyDb], ROk)
FlushAll(S, c, a) ==
    IF ~FlushOk(a) THEN SOk(S, EArg) ELSE SOk([S EXCEPT !.dbs = EmptyDbs], ROk)

Ping(S, a) == IF Len(a) = 0 THEN SOk(S, RSimple("PONG")) ELSE IF Len(a) = 1 THEN SOk(S, RBulk(a[1])) ELSE SOk(S, EArg)
Echo(S, a) == IF Len(a) = 1 THEN SOk(S, RBulk(a[1])) ELSE SOk(S, EArg)

\* one command outside MULTI (or executed by EXEC)
Run(S, c, cmd) ==
    LET nm == CmdName(cmd)
        a == Tail(cmd)
    IN  CASE nm \in DataNames -> DataCmd(S, c, cmd)
          [] nm = "DBSIZE" -> DbSize(S, c, a)
          [] nm = "SELECT" -> Select(S, c, a)
          [] nm = "FLUSHDB" -> FlushDb(S, c, a)
          [] nm = "FLUSHALL" -> FlushAll(S, c, a)
          [] nm = "PING" -> Ping(S, a)
          [] nm = "ECHO" -> Echo(S, a)
          [] OTHER -> SOk(S, RErr("ERR"))

Apply(S, c, cmd) == Run(S, c, cmd)

=============================================================================
