------------------------------- MODULE Server -------------------------------
(***************************************************************************)
(* The emulator as a client can observe it: sixteen databases, a clock,     *)
(* one session per connection.  Apply(S, c, cmd) is the atomic effect of    *)
(* connection c sending cmd in server state S.                              *)
(*                                                                         *)
(*   S.dbs   : [0..15 -> database]            (Store.tla)                   *)
(*   S.now   : model clock (ms)                                             *)
(*   S.conn  : [connection ids -> session]                                  *)
(*   S.orph  : sequence of orphaned database objects - only ever non-empty  *)
(*             under the deviation D_FLUSH_ORPHANS_OTHER_CONNECTIONS        *)
(*   S.oid   : [0..15 -> [stored keys -> object id]], S.nid: last id used -  *)
(*             the emulator's object identities, which its WATCH compares   *)
(*             (only consulted under D_WATCH_COMPARES_OBJECT_IDS)           *)
(*   session : [db, proto, name, multi, queue, watch, cas, o, wid]          *)
(*     multi \in {"off","on","dirty"}; queue: queued command vectors;       *)
(*     watch: set of <<db, key>>; cas: a watched key was modified;          *)
(*     o: 0 = attached to S.dbs[db], n > 0 = still using S.orph[n]          *)
(*     wid: [watched <<db,key>> -> object id seen by WATCH (0 = missing)]   *)
(***************************************************************************)
EXTENDS Commands

DbIds == 0..15

NewSess == [db |-> 0, proto |-> 2, name |-> <<>>, multi |-> "off", queue |-> <<>>,
            watch |-> {}, cas |-> FALSE, o |-> 0, wid |-> <<>>,
            blk |-> [on |-> FALSE], gate |-> "none", parked |-> FALSE, closed |-> FALSE]
BNames == {"BLPOP", "BRPOP", "BLMOVE", "BRPOPLPUSH", "BLMPOP"}

EmptyDbs == [i \in DbIds |-> EmptyDb]
InitServer(conns) == [dbs |-> EmptyDbs, now |-> 1000000, conn |-> [c \in conns |-> NewSess], orph |-> <<>>,
                      oid |-> [i \in DbIds |-> <<>>], nid |-> 0]
\* a server state whose database 0 is d (object ids assigned arbitrarily but distinctly)
\* ... and one whose databases are given by the function ds (database index -> database)
WithDbs(S, ds) == [S EXCEPT !.dbs = [i \in DbIds |-> IF i \in DOMAIN ds THEN ds[i] ELSE EmptyDb],
                            !.oid = [i \in DbIds |-> IF i \in DOMAIN ds THEN [k \in DOMAIN ds[i] |-> 1] ELSE <<>>], !.nid = 1]
WithDb0(S, d) == [S EXCEPT !.dbs[0] = d, !.oid[0] = [k \in DOMAIN d |-> 1], !.nid = 1]

\* result of Apply: successor state, reply, deviations used, deadline comparison hints
SRes(S, r, dv, rel, tol) == [S |-> S, r |-> r, dv |-> dv, rel |-> rel, tol |-> tol]
SOk(S, r) == SRes(S, r, {}, {}, {})
SDev(S, r, id) == SRes(S, r, {id}, {}, {})

-----------------------------------------------------------------------------
(* Redis arity table: n > 0 exactly n words, n < 0 at least -n words (command name included).
   A command that violates it, or whose name is unknown, is rejected when it is queued.     *)
Arity ==
  [n \in Names |->
     CASE n \in {"GET", "GETDEL", "STRLEN", "INCR", "DECR", "LLEN", "SCARD", "SMEMBERS", "HGETALL", "HKEYS", "HVALS", "HLEN",
                 "TYPE", "KEYS", "PERSIST", "TTL", "PTTL", "EXPIRETIME", "PEXPIRETIME", "SELECT", "ECHO"} -> 2
       [] n \in {"SETNX", "GETSET", "APPEND", "INCRBY", "DECRBY", "INCRBYFLOAT", "LINDEX", "RPOPLPUSH", "SISMEMBER", "HGET",
                 "HEXISTS", "HSTRLEN", "RENAME", "RENAMENX", "GETBIT"} -> 3
       [] n \in {"SETEX", "PSETEX", "GETRANGE", "SUBSTR", "SETRANGE", "LRANGE", "LSET", "LREM", "LTRIM", "SMOVE", "HSETNX",
                 "HINCRBY", "HINCRBYFLOAT", "BRPOPLPUSH", "SETBIT"} -> 4
       [] n \in {"LINSERT", "LMOVE"} -> 5
       [] n = "BLMOVE" -> 6
       [] n \in {"RANDOMKEY", "DBSIZE", "MULTI", "EXEC", "DISCARD", "UNWATCH"} -> 1
       [] n \in {"FLUSHDB", "FLUSHALL", "PING", "HELLO", "QUIT"} -> -1
       [] n = "CLIENT" -> -2
       [] n \in {"GETEX", "MGET", "LPOP", "RPOP", "SRANDMEMBER", "SINTER", "SUNION", "SDIFF", "HRANDFIELD", "DEL", "UNLINK",
                 "EXISTS", "TOUCH", "SORT", "WATCH", "BITCOUNT", "BITFIELD", "BITFIELD_RO"} -> -2
       [] n \in {"SET", "MSET", "MSETNX", "LCS", "LPUSH", "RPUSH", "LPUSHX", "RPUSHX", "LPOS", "SADD", "SREM", "SMISMEMBER",
                 "SINTERSTORE", "SUNIONSTORE", "SDIFFSTORE", "SINTERCARD", "HMGET", "HDEL", "COPY", "EXPIRE", "PEXPIRE",
                 "EXPIREAT", "PEXPIREAT", "BLPOP", "BRPOP", "BITPOS"} -> -3
       [] n \in {"LMPOP", "HSET", "HMSET", "BITOP"} -> -4
       [] n = "BLMPOP" -> -5
       [] OTHER -> -1]
ArityOk(cmd) ==
    LET nm == CmdName(cmd)
    IN  nm # "?" /\ (IF Arity[nm] > 0 THEN Len(cmd) = Arity[nm] ELSE Len(cmd) >= -Arity[nm])

-----------------------------------------------------------------------------
\* the database object connection c works on, and writing it back
DbOf(S, c) == IF S.conn[c].o = 0 THEN S.dbs[S.conn[c].db] ELSE S.orph[S.conn[c].o]
WithDb(S, c, d) == IF S.conn[c].o = 0 THEN [S EXCEPT !.dbs[S.conn[c].db] = d] ELSE [S EXCEPT !.orph[S.conn[c].o] = d]

LiveEnt(db, now, k) == IF k \in DOMAIN db /\ IsLive(db[k], now) THEN db[k] ELSE [ty |-> "none"]

(* WATCH bookkeeping (ideal): after any step, a session whose watched key differs between
   the two states (value, existence or deadline - as a client could observe them) is flagged.
   Alongside, the emulator's object identities are maintained: a key gets a fresh id when it is
   created or when a command of the "replacing" kind rewrites it; in-place mutators keep the id. *)
Recreating == {"SET", "SETNX", "SETEX", "PSETEX", "GETSET", "MSET", "MSETNX", "APPEND", "SETRANGE", "INCR", "DECR", "INCRBY",
               "DECRBY", "INCRBYFLOAT", "SINTERSTORE", "SUNIONSTORE", "SDIFFSTORE", "RENAME", "RENAMENX", "COPY",
               "SETBIT", "BITOP", "BITFIELD"}
\* tw: the <<database, key>> pairs the command rewrote even if with the same content (see Rewrites below)
FlagW(S1, S2, nm, tw) ==
    [S2 EXCEPT
       !.conn = [c \in DOMAIN S2.conn |->
          IF \E w \in S2.conn[c].watch : w \in tw \/ LiveEnt(S1.dbs[w[1]], S1.now, w[2]) # LiveEnt(S2.dbs[w[1]], S2.now, w[2])
          THEN [S2.conn[c] EXCEPT !.cas = TRUE] ELSE S2.conn[c]],
       \* (a flush gives the emulator a new database object; watches still refer to the old, untouched one)
       !.oid = IF Real /\ nm \in {"FLUSHDB", "FLUSHALL"} THEN S1.oid ELSE
               [i \in DbIds |->
                  [k \in DOMAIN S2.dbs[i] \cup (DOMAIN S1.oid[i] \ DOMAIN S1.dbs[i]) |->
                   IF k \notin DOMAIN S2.dbs[i] THEN S1.oid[i][k]              \* object of a flushed database (see above)
                   ELSE IF k \notin DOMAIN S1.dbs[i] \/ k \notin DOMAIN S1.oid[i] THEN S1.nid + 1
                   ELSE IF (S1.dbs[i][k] # S2.dbs[i][k] \/ <<i, k>> \in tw) /\ nm \in Recreating THEN S1.nid + 1
                   \* rotating a one-element list onto itself: the pop removes the key, the push creates it again
                   ELSE IF nm \in {"LMOVE", "RPOPLPUSH", "BLMOVE", "BRPOPLPUSH"} /\ <<i, k>> \in tw /\ S1.dbs[i][k].ty = "list"
                           /\ Len(S1.dbs[i][k].l) = 1 /\ S2.dbs[i][k].ty = "list" /\ Len(S2.dbs[i][k].l) = 1 THEN S1.nid + 1
                   ELSE S1.oid[i][k]]],
       !.nid = S1.nid + 1]
Flag(S1, S2, nm) == FlagW(S1, S2, nm, {})

(* WATCH counts a key as modified when a command WRITES it, whether or not the content changes (Redis:
   signalModifiedKey): SET to the same value, APPEND of nothing, HSET of the same value, RENAME back onto the
   old name, LMOVE k k of a one-element list, a BITFIELD write of the value that was there.  Rewrites is the
   set of keys a successful command writes in that sense, beyond what the comparison of the states shows. *)
RECURSIVE BfWrites(_, _, _)
\* positions (in the reply array) of the write sub-operations of BITFIELD that were not refused
BfWrites(a, j, pos) ==
    IF j > Len(a) THEN {}
    ELSE IF Is(a[j], "OVERFLOW") THEN BfWrites(a, j + 2, pos)
    ELSE IF Is(a[j], "GET") THEN BfWrites(a, j + 3, pos + 1)
    ELSE IF Is(a[j], "SET") \/ Is(a[j], "INCRBY") THEN {pos} \cup BfWrites(a, j + 4, pos + 1)
    ELSE {}
Rewrites(S, S2, c, cmd, r) ==
    LET nm == CmdName(cmd)
        a == Tail(cmd)
        i == S.conn[c].db
        d == Live(DbOf(S, c), S.now)
        K(ks) == {<<i, k>> : k \in {q \in ks : q \in DOMAIN S2.dbs[i]}}
        opt(o) == \E j \in 3..Len(a) : Is(a[j], o)
    IN  IF r.t = "err" \/ Len(a) = 0 \/ S.conn[c].o # 0 THEN {}
        ELSE CASE nm = "SET" /\ Len(a) >= 2 -> IF (opt("NX") /\ Has(d, a[1])) \/ (opt("XX") /\ ~Has(d, a[1])) THEN {} ELSE K({a[1]})
               [] nm \in {"SETEX", "PSETEX", "GETSET", "APPEND", "INCR", "DECR", "INCRBY", "DECRBY", "INCRBYFLOAT",
                          "HSET", "HMSET", "HINCRBY", "HINCRBYFLOAT", "LSET"} -> K({a[1]})
               [] nm = "SETRANGE" /\ Len(a) = 3 -> IF a[3] = <<>> THEN {} ELSE K({a[1]})
               [] nm = "MSET" -> K({a[j] : j \in {m \in 1..Len(a) : m % 2 = 1}})
               [] nm = "RENAME" /\ Len(a) = 2 -> K({a[1], a[2]})
               [] nm = "COPY" /\ Len(a) >= 2 -> IF r = RInt(1) THEN K({a[2]}) ELSE {}
               [] nm \in {"LMOVE", "RPOPLPUSH"} /\ Len(a) >= 2 -> IF r.t = "bulk" THEN K({a[1], a[2]}) ELSE {}
               [] nm \in {"SINTERSTORE", "SUNIONSTORE", "SDIFFSTORE"} -> K({a[1]})
               [] nm = "BITFIELD" -> IF r.t = "arr" /\ \E p \in BfWrites(a, 2, 1) : p <= Len(r.a) /\ r.a[p].t # "nil" THEN K({a[1]}) ELSE {}
               [] OTHER -> {}

\* a data command of connection c on its selected database
DataCmd(S, c, cmd) ==
    LET res == Exec1(DbOf(S, c), S.now, cmd)
    IN  SRes(WithDb(S, c, res.db), res.r, res.dv, res.rel, res.tol)

\* every stored object of database i, expired or not, counts for the emulator's DBSIZE
DbSize(S, c, a) ==
    LET i == S.conn[c].db
        \* (counted on the connection's own database object; under D_DBSIZE_COUNTS_EXPIRED_KEYS the emulator read the
        \*  counter of the database table's current object instead)
        db == IF On("D_DBSIZE_COUNTS_EXPIRED_KEYS") THEN S.dbs[i] ELSE DbOf(S, c)
        live == Live(db, S.now)
    IN  IF Len(a) # 0 THEN SOk(S, EArg)
        ELSE IF On("D_DBSIZE_COUNTS_EXPIRED_KEYS") /\ DOMAIN live # DOMAIN db
             THEN SDev(S, RInt(Cardinality(DOMAIN db)), "D_DBSIZE_COUNTS_EXPIRED_KEYS")
        ELSE SOk(S, RInt(Cardinality(DOMAIN live)))

Select(S, c, a) ==
    LET n == ArgInt(a[1])
    IN  IF Len(a) # 1 \/ ~n.ok THEN SOk(S, EArg)
        ELSE IF n.v \notin DbIds THEN SOk(S, RErr("ERR"))
        ELSE SOk([S EXCEPT !.conn[c].db = n.v, !.conn[c].o = 0], ROk)

(* FLUSHDB / FLUSHALL.  The emulator drops the database object from its table and only the
   caller re-selects: every other connection that had the database selected keeps reading and
   writing the orphaned object (shared among them) until its next SELECT.                      *)
Orphaned(S, c, ids) == {x \in DOMAIN S.conn : x # c /\ S.conn[x].o = 0 /\ S.conn[x].db \in ids}
RECURSIVE Detach(_, _, _)
Detach(S, c, ids) ==
    IF Orphaned(S, c, ids) = {} THEN S
    ELSE LET x == CHOOSE x \in Orphaned(S, c, ids) : TRUE
             i == S.conn[x].db
             n == Len(S.orph) + 1
             S1 == [S EXCEPT !.orph = Append(S.orph, S.dbs[i]),
                             !.conn = [y \in DOMAIN S.conn |-> IF y # c /\ S.conn[y].o = 0 /\ S.conn[y].db = i
                                                               THEN [S.conn[y] EXCEPT !.o = n] ELSE S.conn[y]]]
         IN  Detach(S1, c, ids \ {i})

FlushOk(a) == Len(a) = 0 \/ (Len(a) = 1 /\ (Is(a[1], "SYNC") \/ Is(a[1], "ASYNC")))
Flush(S, c, a, ids) ==
    LET emptied == [S EXCEPT !.dbs = [i \in DbIds |-> IF i \in ids THEN EmptyDb ELSE S.dbs[i]], !.conn[c].o = 0]
    IN  IF ~FlushOk(a) THEN SOk(S, EArg)
        ELSE IF On("D_FLUSH_ORPHANS_OTHER_CONNECTIONS") /\ Orphaned(S, c, ids) # {}
             THEN LET S1 == Detach(S, c, ids)
                  IN  SDev([S1 EXCEPT !.dbs = [i \in DbIds |-> IF i \in ids THEN EmptyDb ELSE S1.dbs[i]], !.conn[c].o = 0],
                           ROk, "D_FLUSH_ORPHANS_OTHER_CONNECTIONS")
        ELSE SOk(emptied, ROk)

Ping(S, a) == IF Len(a) = 0 THEN SOk(S, RSimple("PONG")) ELSE IF Len(a) = 1 THEN SOk(S, RBulk(a[1])) ELSE SOk(S, EArg)
Echo(S, a) == IF Len(a) = 1 THEN SOk(S, RBulk(a[1])) ELSE SOk(S, EArg)

\* HELLO [protover]: 2 and 3 switch the connection; anything else is refused and changes nothing
Hello(S, c, a) ==
    LET v == ArgInt(a[1])
    IN  IF Len(a) = 0 THEN SOk(S, [t |-> "hello", proto |-> S.conn[c].proto])
        \* HELLO protover SETNAME name: the connection is switched and named (the name as for CLIENT SETNAME); an invalid
        \* name is refused after the switch (Redis validates before; either order is accepted: the reply is an error)
        ELSE IF Len(a) = 3 /\ Is(a[2], "SETNAME") /\ v.ok /\ v.v \in {2, 3} THEN
             (IF \E i \in 1..Len(a[3]) : a[3][i] < 33 THEN SOk(S, RErr("*"))
              ELSE SOk([S EXCEPT !.conn[c].proto = v.v, !.conn[c].name = a[3]], [t |-> "hello", proto |-> v.v]))
        ELSE IF Len(a) > 1 THEN SOk(S, RErr("*"))        \* AUTH is not modelled
        ELSE IF v.ok /\ v.v \in {2, 3} THEN SOk([S EXCEPT !.conn[c].proto = v.v], [t |-> "hello", proto |-> v.v])
        ELSE IF v.ok /\ On("D_HELLO_ACCEPTS_ANY_VERSION")
             THEN SDev([S EXCEPT !.conn[c].proto = v.v], [t |-> "hello", proto |-> v.v], "D_HELLO_ACCEPTS_ANY_VERSION")
        ELSE SOk(S, RErr("*"))

\* CLIENT SETNAME name | GETNAME  (other subcommands are not modelled: reply unspecified, no effect)
Client(S, c, a) ==
    IF Len(a) = 0 THEN SOk(S, RErr("ERR"))
    ELSE IF Is(a[1], "SETNAME") THEN
         (IF Len(a) # 2 THEN SOk(S, RErr("ERR"))
          ELSE IF \E i \in 1..Len(a[2]) : a[2][i] < 33 THEN SOk(S, RErr("ERR"))
          ELSE SOk([S EXCEPT !.conn[c].name = a[2]], ROk))
    ELSE IF Is(a[1], "GETNAME") THEN
         (IF Len(a) # 1 THEN SOk(S, RErr("ERR"))
          ELSE SOk(S, IF S.conn[c].name = <<>> THEN RNil ELSE RBulk(S.conn[c].name)))
    ELSE SOk(S, RAny)

\* one command outside MULTI (or executed by EXEC)
Run(S, c, cmd) ==
    LET nm == CmdName(cmd)
        a == Tail(cmd)
    IN  CASE nm \in DataNames -> DataCmd(S, c, cmd)
          [] nm = "DBSIZE" -> DbSize(S, c, a)
          [] nm = "SELECT" -> Select(S, c, a)
          [] nm = "FLUSHDB" -> Flush(S, c, a, {S.conn[c].db})
          [] nm = "FLUSHALL" -> Flush(S, c, a, DbIds)
          [] nm = "PING" -> Ping(S, a)
          [] nm = "ECHO" -> Echo(S, a)
          [] nm = "HELLO" -> Hello(S, c, a)
          [] nm = "CLIENT" -> Client(S, c, a)
          \* a blocking command executed by EXEC (or issued when data is available) is its non-blocking attempt
          [] nm \in BNames -> LET res == TryB(Live(DbOf(S, c), S.now), nm, a)
                              IN  SRes(WithDb(S, c, KeepExpired(DbOf(S, c), S.now, res.db)), res.r, res.dv, res.rel, res.tol)
          [] nm = "UNWATCH" -> IF Len(a) # 0 THEN SOk(S, EArg)
                               ELSE SOk([S EXCEPT !.conn[c].watch = {}, !.conn[c].cas = FALSE, !.conn[c].wid = <<>>], ROk)
          \* an unknown command name is refused; the emulator quotes the name and the arguments in the error
          \* line, so CR / LF in them break the framing of the reply
          [] OTHER -> IF nm = "?" /\ On("D_UNKNOWN_COMMAND_ERROR_ECHOES_CRLF")
                         /\ \E j \in 1..Len(cmd) : \E q \in 1..Len(cmd[j]) : cmd[j][q] \in {10, 13}
                      THEN SDev(S, [t |-> "misframed"], "D_UNKNOWN_COMMAND_ERROR_ECHOES_CRLF")
                      ELSE SOk(S, RErr("ERR"))

-----------------------------------------------------------------------------
(* Transactions *)

ResetTxn(S, c) == [S EXCEPT !.conn[c].multi = "off", !.conn[c].queue = <<>>, !.conn[c].watch = {}, !.conn[c].cas = FALSE,
                             !.conn[c].wid = <<>>]

\* run the queue in order; every command sees the effects of the previous ones; errors do not stop it
RECURSIVE RunQueue(_, _, _, _)
RunQueue(S, c, q, acc) ==
    IF q = <<>> THEN acc
    ELSE LET res == Run(S, c, Head(q))
             S2 == FlagW(S, res.S, CmdName(Head(q)), Rewrites(S, res.S, c, Head(q), res.r))
         IN  RunQueue(S2, c, Tail(q), [S |-> S2, rs |-> Append(acc.rs, res.r), dv |-> acc.dv \cup res.dv,
                                       rel |-> acc.rel \cup res.rel, tol |-> acc.tol \cup res.tol])

\* the emulator's EXEC check: the stored object (expired or not) has another id than WATCH saw
EmuAbort(S, c) ==
    \E w \in DOMAIN S.conn[c].wid :
        IF w[2] \in DOMAIN S.oid[w[1]] THEN S.oid[w[1]][w[2]] # S.conn[c].wid[w] ELSE S.conn[c].wid[w] # 0

Exec(S, c, a) ==
    LET ss == S.conn[c]
        run == RunQueue(S, c, ss.queue, [S |-> S, rs |-> <<>>, dv |-> {}, rel |-> {}, tol |-> {}])
    IN  IF Len(a) # 0 THEN SOk(S, EArg)
        ELSE IF ss.multi = "off" THEN SOk(S, RErr("ERR"))
        ELSE IF ss.multi = "dirty" THEN SOk(ResetTxn(S, c), RErr("*"))          \* EXECABORT: nothing executed
        ELSE IF On("D_WATCH_COMPARES_OBJECT_IDS") /\ EmuAbort(S, c) # ss.cas THEN
             \* the emulator decides by object identity, not by modification
             (IF EmuAbort(S, c)
              THEN SRes(IF On("D_EXEC_WATCH_ABORT_KEEPS_MULTI") THEN S ELSE ResetTxn(S, c), RNil, {"D_WATCH_COMPARES_OBJECT_IDS"}, {}, {})
              ELSE SRes(ResetTxn(run.S, c), RArr(run.rs), run.dv \cup {"D_WATCH_COMPARES_OBJECT_IDS"}, run.rel, run.tol))
        ELSE IF ss.cas THEN
             (IF On("D_EXEC_WATCH_ABORT_KEEPS_MULTI") THEN SDev(S, RNil, "D_EXEC_WATCH_ABORT_KEEPS_MULTI")
              ELSE SOk(ResetTxn(S, c), RNil))
        ELSE SRes(ResetTxn(run.S, c), RArr(run.rs), run.dv, run.rel, run.tol)

Watch(S, c, a) ==
    LET i == S.conn[c].db
        ws == {<<i, a[j]>> : j \in 1..Len(a)}
        seen(w) == IF w[2] \in DOMAIN S.dbs[i] /\ IsLive(S.dbs[i][w[2]], S.now) /\ w[2] \in DOMAIN S.oid[i] THEN S.oid[i][w[2]] ELSE 0
        old == S.conn[c].wid
    IN  IF Len(a) < 1 THEN SOk(S, EArg)
        ELSE SOk([S EXCEPT !.conn[c].watch = @ \cup ws,
                           !.conn[c].wid = [w \in DOMAIN old \cup ws |-> IF w \in ws THEN seen(w) ELSE old[w]]], ROk)

\* blocking commands never block inside EXEC and reply as their non-blocking counterparts; they are
\* not in the transaction vocabulary of the bounded models yet (see Blocking.tla)

Apply(S, c, cmd) ==
    LET ss == S.conn[c]
        nm == CmdName(cmd)
        a == Tail(cmd)
        res ==
          IF ss.multi = "off" THEN
             CASE nm = "MULTI" -> IF Len(a) # 0 THEN SOk(S, EArg) ELSE SOk([S EXCEPT !.conn[c].multi = "on"], ROk)
               [] nm = "EXEC" -> Exec(S, c, a)
               [] nm = "DISCARD" -> SOk(S, RErr("ERR"))
               [] nm = "WATCH" -> Watch(S, c, a)
               [] OTHER -> Run(S, c, cmd)
          ELSE
             CASE nm = "MULTI" -> SOk(S, RErr("ERR"))                     \* nested: error, state as it was
               [] nm = "WATCH" -> SOk(S, RErr("ERR"))                     \* inside MULTI: error, state as it was
               [] nm = "EXEC" -> Exec(S, c, a)
               [] nm = "DISCARD" -> IF Len(a) # 0 THEN SOk(S, EArg) ELSE SOk(ResetTxn(S, c), ROk)
               [] OTHER ->
                    IF ~ArityOk(cmd) THEN
                         (IF On("D_EXEC_RUNS_AFTER_QUEUE_ERROR") THEN SDev(S, RErr("ERR"), "D_EXEC_RUNS_AFTER_QUEUE_ERROR")
                          ELSE SOk([S EXCEPT !.conn[c].multi = "dirty"], RErr("ERR")))
                    \* the emulator parses the arguments when it queues: what Redis would queue and fail at EXEC
                    \* time (bad option, not an integer) is refused at once and not queued
                    ELSE IF On("D_MULTI_REJECTS_UNPARSABLE_ARGS_AT_QUEUE_TIME") /\ IsParseErr(Run(S, c, cmd).r)
                         THEN SDev(IF On("D_EXEC_RUNS_AFTER_QUEUE_ERROR") THEN S ELSE [S EXCEPT !.conn[c].multi = "dirty"], RErr("ERR"),
                                   "D_MULTI_REJECTS_UNPARSABLE_ARGS_AT_QUEUE_TIME")
                    ELSE SOk([S EXCEPT !.conn[c].queue = Append(@, cmd)], RSimple("QUEUED"))
    IN  [res EXCEPT !.S = FlagW(S, res.S, nm, IF ss.multi = "off" THEN Rewrites(S, res.S, c, cmd, res.r) ELSE {})]

LiveDbs0(S) == [d \in DbIds |-> Live(S.dbs[d], S.now)]

\* time passes: deadlines may be crossed; watchers of keys that expire are flagged
Tick(S, dt) == [Flag(S, [S EXCEPT !.now = @ + dt], "tick") EXCEPT !.oid = S.oid, !.nid = S.nid]

=============================================================================
