------------------------------- MODULE Server -------------------------------
(***************************************************************************)
(* The emulator as a client can observe it: sixteen databases, a clock,     *)
(* one session per connection.  Apply(S, c, cmd) is the atomic effect of    *)
(* connection c sending cmd in server state S.                              *)
(*                                                                         *)
(*   S.dbs   : [0..15 -> database]            (Store.tla)                   *)
(*   S.now   : model clock                                                  *)
(*   S.conn  : [connection ids -> session]                                  *)
(*   session : [db, proto, name, multi, queue, watch, dirty]                *)
(***************************************************************************)
EXTENDS Commands

DbIds == 0..15

NewSess == [db |-> 0, proto |-> 2, name |-> <<>>, multi |-> "off", queue |-> <<>>,
            watch |-> {}, cas |-> FALSE]

EmptyDbs == [i \in DbIds |-> EmptyDb]
InitServer(conns) == [dbs |-> EmptyDbs, now |-> 1000000, conn |-> [c \in conns |-> NewSess]]

\* result of Apply: successor state, reply, deviations used, deadline comparison hints
SRes(S, r, dv, rel, tol) == [S |-> S, r |-> r, dv |-> dv, rel |-> rel, tol |-> tol]
SOk(S, r) == SRes(S, r, {}, {}, {})

\* keys of database i that differ between two states (value, existence or deadline)
Changed(d1, d2) == {k \in DOMAIN d1 \cup DOMAIN d2 :
                      IF k \in DOMAIN d1 /\ k \in DOMAIN d2 THEN d1[k] # d2[k] ELSE TRUE}

\* a data command of connection c on its selected database
DataCmd(S, c, cmd) ==
    LET i == S.conn[c].db
        res == Exec1(S.dbs[i], S.now, cmd)
    IN  SRes([S EXCEPT !.dbs[i] = res.db], res.r, res.dv, res.rel, res.tol)

Apply(S, c, cmd) == DataCmd(S, c, cmd)

=============================================================================
