SPECIFICATION TSpec
CONSTANTS
  OpenDev = {}
  States <- ETStates
  Vocab <- ETVocab
  TreeOk <- ETOk
  Depth = 6
  CmdU = {}
  Relevant <- AllRelevant
  Fam = "expirytxn"
ACTION_CONSTRAINT TEmit
INVARIANT TWellFormed
PROPERTY QueuedInvisible
PROPERTY ExecAllOrNothing
CHECK_DEADLOCK FALSE
