SPECIFICATION TSpec
CONSTANTS
  OpenDev = {}
  States <- HelloStates
  Vocab <- HelloVocab
  TreeOk <- AnyProg
  Depth = 3
  CmdU = {}
  Relevant <- AllRelevant
  Fam = "hello"
ACTION_CONSTRAINT TEmit
PROPERTY SessionIsolation
CHECK_DEADLOCK FALSE
