-------------------- MODULE MC_bitmaps_walk --------------------
(* Random multi-step walks of the bitmap family (tlc -simulate): a write through one command read back through
   the others, BITOP results that must not share storage with their sources, writes after writes; see MCWalk. *)
EXTENDS MC_bitmaps, MCWalk
Extra == { C("GET", <<ka>>), C("GET", <<kb>>), C("GET", <<kc>>), C("STRLEN", <<ka>>), C("APPEND", <<kb, <<255>> >>), C("SETRANGE", <<ka, N(1), <<0>> >>),
           C("BITOP", <<W("OR"), kc, ka>>), C("BITOP", <<W("AND"), kc, kb>>), C("BITOP", <<W("XOR"), ka, kb>>), C("BITOP", <<W("OR"), kb, kb>>),
           C("SETBIT", <<kc, N(0), N(1)>>), C("SETBIT", <<kc, N(9), N(0)>>), C("SETBIT", <<ka, N(7), N(1)>>), C("SETBIT", <<kb, N(0), N(0)>>),
           C("BITFIELD", <<kc, W("SET"), W("u4"), N(0), N(9)>>), C("BITFIELD", <<ka, W("INCRBY"), W("u8"), N(0), N(1)>>),
           C("BITFIELD", <<kb, W("OVERFLOW"), W("FAIL"), W("INCRBY"), W("i8"), N(0), N(-100), W("INCRBY"), W("i8"), N(0), N(-28)>>),
           C("COPY", <<ka, kc, W("REPLACE")>>), C("DEL", <<ka>>) }
WVocab == VocabOf(Extra \cup {c \in BmCmds : CmdName(c) = "BITOP"} \cup {C("GETBIT", <<ka, N(0)>>), C("BITCOUNT", <<kc>>), C("BITPOS", <<kc, N(1)>>)})
WOk(s, st) == TRUE
=============================================================================
