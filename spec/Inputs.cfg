INIT IInit
NEXT INext
CONSTANTS
  OpenDev = {}
  States = {}
  CmdU = {}
  Relevant <- AllRelevant
  Fam = "hostile"
CHECK_DEADLOCK FALSE
