------------------------------- MODULE MC_sort ------------------------------
(* C06: SORT with BY / LIMIT / GET / ASC|DESC / ALPHA / STORE: a list of numbers (and one of words), weight keys
   w_<e> (one missing, two equal), object keys o_<e> (one missing), a destination that is missing, a list or a
   string; every well-formed combination of the options over these. *)
EXTENDS Universe
kl == B("l")
kw == B("m")
kd == B("d")
Wt(e, v) == (B("w_") \o e) :> VStr(v, 0)
Ob(e, v) == (B("o_") \o e) :> VStr(v, 0)
Base == (kl :> VList(<<N(3), N(1), N(2)>>, 0)) @@ (kw :> VList(<<B("b"), B("a"), B("c")>>, 0))
        @@ Wt(N(1), N(30)) @@ Wt(N(3), N(20)) @@ Wt(B("a"), N(2)) @@ Wt(B("b"), N(2)) @@ Wt(B("c"), N(1))
        @@ Ob(N(1), B("one")) @@ Ob(N(2), B("two")) @@ (B("w_x") :> VList(<<x>>, 0))
SortStates == { WithDb0(InitServer({1}), Base), WithDb0(InitServer({1}), Base @@ (kd :> VList(<<x>>, 0))), WithDb0(InitServer({1}), Base @@ (kd :> VStr(x, 0))),
                WithDb0(InitServer({1}), Base @@ (B("w_2") :> VStr(B("zz"), 0))) }
ByO == {<<>>, <<W("BY"), B("w_*")>>, <<W("BY"), B("nosort")>>, <<W("by"), B("w_*")>>}
LimO == {<<>>, <<W("LIMIT"), N(1), N(1)>>, <<W("LIMIT"), N(0), N(5)>>, <<W("LIMIT"), N(3), N(1)>>}
GetO == {<<>>, <<W("GET"), B("o_*")>>, <<W("GET"), B("#"), W("GET"), B("o_*")>>, <<W("GET"), B("const")>>}
OrdO == {<<>>, <<W("DESC")>>, <<W("ALPHA")>>, <<W("DESC"), W("ALPHA")>>}
StoO == {<<>>, <<W("STORE"), kd>>}
SortCmds == {C("SORT", <<k>> \o b \o l \o g \o o \o s) : k \in {kl, kw}, b \in ByO, l \in LimO, g \in GetO, o \in OrdO, s \in StoO}
            \cup {C("LRANGE", <<kd, N(0), N(-1)>>), C("SORT", <<kl, W("BY")>>), C("SORT", <<kl, W("STORE")>>), C("SORT", <<B("nokey"), W("STORE"), kd>>),
                  C("SORT", <<kl, W("LIMIT"), N(5), N(5), W("STORE"), kd>>)}
SortRelevant(s, cmd) == TRUE
=============================================================================
