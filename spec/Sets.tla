-------------------------------- MODULE Sets --------------------------------
(***************************************************************************)
(* Set commands as TLA+ set algebra.                                        *)
(***************************************************************************)
EXTENDS Store

SetOf(d, k) == IF Has(d, k) /\ d[k].ty = "set" THEN d[k].m ELSE {}
PutSet(d, k, m) == IF m = {} THEN Del(d, k) ELSE Put(d, k, VSet(m, ExpOf(d, k)))
SeqRange(s) == {s[i] : i \in 1..Len(s)}

SAdd(d, a) ==
    LET k == a[1]
        ms == SeqRange(Tail(a))
        old == SetOf(d, k)
    IN  IF Len(a) < 2 THEN Fail(d, EArg)
        ELSE IF WrongType(d, k, "set") THEN Fail(d, WT)
        ELSE Res(PutSet(d, k, old \cup ms), RInt(Cardinality(ms \ old)))

SRem(d, a) ==
    LET k == a[1]
        ms == SeqRange(Tail(a))
        old == SetOf(d, k)
        new == old \ ms
    IN  IF Len(a) < 2 THEN Fail(d, EArg)
        ELSE IF WrongType(d, k, "set") THEN Fail(d, WT)
        ELSE IF Has(d, k) /\ new = {} /\ On("D_SREM_LEAVES_EMPTY_SET")
             THEN ResD(Put(d, k, VSet({}, ExpOf(d, k))), RInt(Cardinality(old \cap ms)), "D_SREM_LEAVES_EMPTY_SET")
        ELSE Res(PutSet(d, k, new), RInt(Cardinality(old \cap ms)))

SCard(d, a) ==
    IF Len(a) # 1 THEN Fail(d, EArg)
    ELSE IF WrongType(d, a[1], "set") THEN Fail(d, WT)
    ELSE Res(d, RInt(Cardinality(SetOf(d, a[1]))))

SIsMember(d, a) ==
    IF Len(a) # 2 THEN Fail(d, EArg)
    ELSE IF WrongType(d, a[1], "set") THEN Fail(d, WT)
    ELSE Res(d, RInt(IF a[2] \in SetOf(d, a[1]) THEN 1 ELSE 0))

SMIsMember(d, a) ==
    LET ms == Tail(a)
    IN  IF Len(a) < 2 THEN Fail(d, EArg)
        ELSE IF WrongType(d, a[1], "set") THEN Fail(d, WT)
        ELSE Res(d, RArr([i \in 1..Len(ms) |-> RInt(IF ms[i] \in SetOf(d, a[1]) THEN 1 ELSE 0)]))

SMembers(d, a) ==
    IF Len(a) # 1 THEN Fail(d, EArg)
    ELSE IF WrongType(d, a[1], "set") THEN Fail(d, WT)
    ELSE Res(d, RUSet(SetOf(d, a[1])))

SMove(d, a) ==
    LET src == a[1]
        dst == a[2]
        x == a[3]
        s == SetOf(d, src)
        d1 == PutSet(d, src, s \ {x})
        d2 == PutSet(d1, dst, SetOf(d1, dst) \cup {x})
    IN  IF Len(a) # 3 THEN Fail(d, EArg)
        ELSE IF ~Has(d, src) THEN Res(d, RInt(0))
        ELSE IF WrongType(d, src, "set") THEN Fail(d, WT)
        ELSE IF x \notin s /\ On("D_SMOVE_NONMEMBER_SKIPS_DST_TYPECHECK") /\ WrongType(d, dst, "set")
             THEN ResD(d, RInt(0), "D_SMOVE_NONMEMBER_SKIPS_DST_TYPECHECK")
        ELSE IF WrongType(d, dst, "set") THEN Fail(d, WT)
        ELSE IF src = dst THEN
             (IF x \in s /\ On("D_SMOVE_SAME_KEY_REMOVES")
              THEN ResD(IF s = {x} /\ ~On("D_SMOVE_LEAVES_EMPTY_SET") THEN Del(d, src)
                        ELSE Put(d, src, VSet(s \ {x}, ExpOf(d, src))), RInt(0), "D_SMOVE_SAME_KEY_REMOVES")
              ELSE Res(d, RInt(IF x \in s THEN 1 ELSE 0)))
        ELSE IF x \notin s THEN Res(d, RInt(0))
        ELSE LET inDst == x \in SetOf(d, dst)
                 emptySrc == s = {x}
                 dvs == (IF inDst /\ On("D_SMOVE_REPLY0_WHEN_IN_DST") THEN {"D_SMOVE_REPLY0_WHEN_IN_DST"} ELSE {})
                         \cup (IF emptySrc /\ On("D_SMOVE_LEAVES_EMPTY_SET") THEN {"D_SMOVE_LEAVES_EMPTY_SET"} ELSE {})
                 dd == IF emptySrc /\ On("D_SMOVE_LEAVES_EMPTY_SET")
                       THEN PutSet(Put(d, src, VSet({}, ExpOf(d, src))), dst, SetOf(d, dst) \cup {x})
                       ELSE d2
                 rr == IF inDst /\ On("D_SMOVE_REPLY0_WHEN_IN_DST") THEN RInt(0) ELSE RInt(1)
             IN  [Res(dd, rr) EXCEPT !.dv = dvs]

SRandMember(d, a) ==
    LET k == a[1]
        s == SetOf(d, k)
        c == ArgInt(a[2])
    IN  IF Len(a) < 1 \/ Len(a) > 2 THEN Fail(d, EArg)
        ELSE IF Len(a) = 2 /\ ~c.ok THEN Fail(d, EArg)
        ELSE IF WrongType(d, k, "set") THEN Fail(d, WT)
        ELSE IF Len(a) = 1 THEN (IF s = {} THEN Res(d, RNil) ELSE Res(d, RRandOne(s)))
        ELSE IF c.v >= 0 THEN Res(d, RRand(s, Min2(c.v, Cardinality(s)), TRUE))
        ELSE Res(d, RRand(s, IF s = {} THEN 0 ELSE -c.v, FALSE))

\* ---- algebra --------------------------------------------------------------
AnyWrong(d, ks) == \E i \in 1..Len(ks) : WrongType(d, ks[i], "set")

RECURSIVE InterAll(_, _)
InterAll(d, ks) == IF Len(ks) = 1 THEN SetOf(d, ks[1]) ELSE SetOf(d, ks[1]) \cap InterAll(d, Tail(ks))
UnionAll(d, ks) == UNION {SetOf(d, ks[i]) : i \in 1..Len(ks)}
DiffAll(d, ks) == SetOf(d, ks[1]) \ UNION {SetOf(d, ks[i]) : i \in 2..Len(ks)}

AlgOf(op, d, ks) == CASE op = "inter" -> InterAll(d, ks)
                      [] op = "union" -> UnionAll(d, ks)
                      [] op = "diff" -> DiffAll(d, ks)

\* the emulator stops at the first missing operand of SINTER without type-checking the rest (Redis 7 checks all)
InterEarlyOut(d, ks) ==
    \E i \in 1..Len(ks) : /\ ~Has(d, ks[i])
                          /\ \A j \in 1..(i - 1) : Has(d, ks[j]) /\ ~WrongType(d, ks[j], "set")
\* ... and SDIFF/SINTER with a missing first key return the empty set without looking at the others
FirstMissingEarlyOut(op, d, ks) == op \in {"diff", "inter"} /\ ~Has(d, ks[1])

SAlg(op, d, a) ==
    IF Len(a) < 1 THEN Fail(d, EArg)
    ELSE IF AnyWrong(d, a) THEN
         (IF On("D_SETALG_EARLY_OUT_SKIPS_TYPECHECK") /\ (FirstMissingEarlyOut(op, d, a) \/ (op = "inter" /\ InterEarlyOut(d, a)))
          THEN ResD(d, RUSet({}), "D_SETALG_EARLY_OUT_SKIPS_TYPECHECK")
          ELSE Fail(d, WT))
    ELSE Res(d, RUSet(AlgOf(op, d, a)))

SAlgStore(op, d, a) ==
    LET dst == a[1]
        ks == Tail(a)
        m == AlgOf(op, d, ks)
        early == On("D_SETALG_EARLY_OUT_SKIPS_TYPECHECK") /\ (FirstMissingEarlyOut(op, d, ks) \/ (op = "inter" /\ InterEarlyOut(d, ks)))
    IN  IF Len(a) < 2 THEN Fail(d, EArg)
        ELSE IF AnyWrong(d, ks) /\ ~early THEN Fail(d, WT)
        ELSE IF (m = {} \/ (AnyWrong(d, ks) /\ early)) THEN
             (IF On("D_SSTORE_EMPTY_RESULT_CREATES_EMPTY_SET")
              THEN [ResD(Put(d, dst, VSet({}, 0)), RInt(0), "D_SSTORE_EMPTY_RESULT_CREATES_EMPTY_SET")
                      EXCEPT !.dv = {"D_SSTORE_EMPTY_RESULT_CREATES_EMPTY_SET"} \cup
                                    (IF AnyWrong(d, ks) THEN {"D_SETALG_EARLY_OUT_SKIPS_TYPECHECK"} ELSE {})]
              ELSE Res(Del(d, dst), RInt(0)))
        ELSE Res(Put(d, dst, VSet(m, 0)), RInt(Cardinality(m)))

\* SINTERCARD numkeys key... [LIMIT n]
SInterCard(d, a) ==
    LET nk == ArgInt(a[1])
        n == nk.v
        okn == nk.ok /\ n >= 1 /\ Len(a) >= n + 1
        ks == SubSeq(a, 2, n + 1)
        rest == SubSeq(a, n + 2, Len(a))
        lim == IF Len(rest) = 2 THEN ArgInt(rest[2]) ELSE [ok |-> TRUE, v |-> 0]
        negLim == Len(rest) = 2 /\ Is(rest[1], "LIMIT") /\ lim.ok /\ lim.v < 0
        okr == rest = <<>> \/ (Len(rest) = 2 /\ Is(rest[1], "LIMIT") /\ lim.ok /\ (lim.v >= 0 \/ On("D_SINTERCARD_NEGATIVE_LIMIT_ACCEPTED")))
        tag(res) == IF negLim THEN [res EXCEPT !.dv = @ \cup {"D_SINTERCARD_NEGATIVE_LIMIT_ACCEPTED"}] ELSE res
        c == Cardinality(InterAll(d, ks))
    IN  IF Len(a) < 2 \/ ~okn \/ ~okr THEN Fail(d, EArg)
        ELSE IF AnyWrong(d, ks) THEN
             (IF On("D_SETALG_EARLY_OUT_SKIPS_TYPECHECK") /\ InterEarlyOut(d, ks)
              THEN tag(ResD(d, RInt(0), "D_SETALG_EARLY_OUT_SKIPS_TYPECHECK")) ELSE tag(Fail(d, WT)))
        ELSE IF n = 1 /\ c > 0 /\ On("D_SINTERCARD_SINGLE_KEY_ZERO") THEN tag(ResD(d, RInt(0), "D_SINTERCARD_SINGLE_KEY_ZERO"))
        ELSE tag(Res(d, RInt(IF lim.v > 0 THEN Min2(c, lim.v) ELSE c)))

=============================================================================
