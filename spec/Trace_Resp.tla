----------------------------- MODULE Trace_Resp -----------------------------
(***************************************************************************)
(* C15: RESP2 and RESP3 carry the same information.  The harness executes   *)
(* every case twice from the same state - on a RESP2 connection and on one  *)
(* switched with HELLO 3 - and records both replies as typed trees with     *)
(* their exact wire types.  This module judges each recorded pair:          *)
(*   Resp2Only(r2)       under RESP2 only RESP2 types are emitted           *)
(*   DownMatch(r3, r2)   r2 is the canonical down-conversion of r3:         *)
(*     map / attribute map -> flat array of key, value (pairs in any order) *)
(*     set -> array (any order), push -> array                              *)
(*     double / big number / verbatim string -> string with the same text   *)
(*     boolean -> integer 0/1, null -> nil                                  *)
(*     recursively, same nesting, same order where order is defined         *)
(***************************************************************************)
EXTENDS Integers, Sequences, FiniteSets, TLC, Json

CONSTANTS PairFile, OpenDev
P == ndJsonDeserialize(PairFile)

RECURSIVE Resp2Only(_)
Resp2Only(r) ==
    CASE r.t = "nil" -> r.k \in {"$", "*"}
      [] r.t \in {"int", "bulk", "simple", "err"} -> TRUE
      [] r.t = "arr" -> \A j \in 1..Len(r.a) : Resp2Only(r.a[j])
      [] OTHER -> FALSE

IsStr2(r) == r.t \in {"bulk", "simple"}

TxtPrefix == <<116, 120, 116, 58>>      \* "txt:"
StrTrue == <<116, 114, 117, 101>>
StrFalse == <<102, 97, 108, 115, 101>>

\* D: enabled deviations (named as in known_findings.json)
DigitCode == ("0" :> 48) @@ ("1" :> 49) @@ ("2" :> 50) @@ ("3" :> 51) @@ ("4" :> 52) @@ ("5" :> 53) @@ ("6" :> 54) @@ ("7" :> 55)
             @@ ("8" :> 56) @@ ("9" :> 57) @@ ("-" :> 45)
UpToCRLF(bs) == IF \E q \in 1..(Len(bs) - 1) : bs[q] = 13 /\ bs[q + 1] = 10
                THEN SubSeq(bs, 1, (CHOOSE q \in 1..(Len(bs) - 1) : bs[q] = 13 /\ bs[q + 1] = 10 /\ \A u \in 1..(q - 1) : ~(bs[u] = 13 /\ bs[u + 1] = 10)) - 1)
                ELSE bs
RECURSIVE DownMatchD(_, _, _)
\* a map key keeps its type in the flat array (the emulator turns every key into a bulk string of its text)
KeyMatchD(k3, k2, D) ==
    \/ DownMatchD(k3, k2, D)
    \/ "D_RESP2_MAP_KEYS_STRINGIFIED" \in D /\ k3.t = "int" /\ k2.t = "bulk" /\ k2.s = [q \in 1..Len(k3.n) |-> DigitCode[SubSeq(k3.n, q, q)]]
DownMatchD(r3, r2, D) ==
    CASE r3.t = "nil" -> r2.t = "nil"
      [] r3.t = "int" -> r2.t = "int" /\ r2.n = r3.n
      [] r3.t \in {"bulk", "simple", "err"} -> r2.t = r3.t /\ r2.s = r3.s
      [] r3.t \in {"dbl", "big"} -> IsStr2(r2) /\ r2.s = r3.s
      [] r3.t = "verb" -> \/ IsStr2(r2) /\ r2.s = r3.s
                          \/ "D_RESP2_VERBATIM_AS_SIMPLE_STRING_WITH_PREFIX" \in D /\ r2.t = "simple" /\ r2.s = TxtPrefix \o r3.s
                          \* ... and a text containing CRLF ends the simple string early for the client (the rest mis-frames the stream)
                          \/ "D_RESP2_VERBATIM_AS_SIMPLE_STRING_WITH_PREFIX" \in D /\ r2.t = "simple" /\ r2.s = TxtPrefix \o UpToCRLF(r3.s)
      [] r3.t = "bool" -> \/ r2.t = "int" /\ r2.n = (IF r3.n = 1 THEN "1" ELSE "0")
                          \/ "D_RESP2_BOOL_AS_TRUE_FALSE_STRING" \in D /\ r2.t = "simple" /\ r2.s = (IF r3.n = 1 THEN StrTrue ELSE StrFalse)
      [] r3.t \in {"arr", "push"} -> /\ r2.t = "arr" /\ Len(r2.a) = Len(r3.a)
                                   /\ \A j \in 1..Len(r3.a) : DownMatchD(r3.a[j], r2.a[j], D)
      [] r3.t = "set" -> /\ r2.t = "arr" /\ Len(r2.a) = Len(r3.a)
                         /\ \A j \in 1..Len(r3.a) : \E m \in 1..Len(r2.a) : DownMatchD(r3.a[j], r2.a[m], D)
                         /\ \A m \in 1..Len(r2.a) : \E j \in 1..Len(r3.a) : DownMatchD(r3.a[j], r2.a[m], D)
      [] r3.t \in {"map", "attr"} ->
                         /\ r2.t = "arr" /\ Len(r2.a) = Len(r3.a)
                         /\ \A j \in 1..(Len(r3.a) \div 2) : \E m \in 1..(Len(r2.a) \div 2) :
                               KeyMatchD(r3.a[2 * j - 1], r2.a[2 * m - 1], D) /\ DownMatchD(r3.a[2 * j], r2.a[2 * m], D)
                         /\ \A m \in 1..(Len(r2.a) \div 2) : \E j \in 1..(Len(r3.a) \div 2) :
                               KeyMatchD(r3.a[2 * j - 1], r2.a[2 * m - 1], D) /\ DownMatchD(r3.a[2 * j], r2.a[2 * m], D)
      [] OTHER -> FALSE

DownMatch(r3, r2) == DownMatchD(r3, r2, {})

\* replies with a random choice (SRANDMEMBER, HRANDFIELD, SPOP, RANDOMKEY ...) are recorded from two executions
\* and differ in content: only the shape is compared - nesting, lengths, and the flattening of a list of
\* field / value pairs into an array of twice the length
IsPairList(r) == r.t = "arr" /\ Len(r.a) > 0 /\ \A j \in 1..Len(r.a) : r.a[j].t = "arr" /\ Len(r.a[j].a) = 2
ShapeMatch(r3, r2) ==
    CASE r3.t = "nil" -> r2.t = "nil"
      [] r3.t \in {"bulk", "simple", "int", "err"} -> r2.t = r3.t
      [] IsPairList(r3) -> r2.t = "arr" /\ Len(r2.a) = 2 * Len(r3.a) /\ \A j \in 1..Len(r2.a) : r2.a[j].t = "bulk"
      [] r3.t \in {"arr", "set", "map", "push"} -> r2.t = "arr" /\ Len(r2.a) = Len(r3.a)
      [] OTHER -> FALSE
Judge(p, D) == IF p.rand = 1 THEN ShapeMatch(p.r3, p.r2) ELSE DownMatchD(p.r3, p.r2, D)

\* the canonical conversion is idempotent on RESP2 trees: a RESP2 reply only matches itself
PairOk(p) == Resp2Only(p.r2) /\ Judge(p, {})
BadR2 == {n \in 1..Len(P) : ~Resp2Only(P[n].r2)}
BadDown == {n \in 1..Len(P) : Resp2Only(P[n].r2) /\ ~Judge(P[n], {})}
\* pairs that only a listed deviation explains, per deviation
KnownBy(d) == {n \in BadDown : Judge(P[n], {d})}
StillBad == {n \in BadDown : ~Judge(P[n], OpenDev)}
ASSUME PrintT(<<"BADR2", BadR2>>)
ASSUME PrintT(<<"BADDOWN", StillBad>>)
ASSUME \A d \in OpenDev : PrintT(<<"KNOWN", d, KnownBy(d)>>)
ASSUME PrintT(<<"PAIRS", Len(P)>>)

\* a sanity property of the judge itself, checked on the recorded RESP2 replies: Down is the identity on RESP2
ASSUME \A n \in 1..Len(P) : Resp2Only(P[n].r2) => DownMatch(P[n].r2, P[n].r2)

VARIABLE pN
Init == pN = 0
Next == pN < Len(P) /\ pN' = pN + 1
AllOk == pN = 0 \/ PairOk(P[pN])     \* (informational; the verdict is taken from the BAD sets above)
=============================================================================
