------------------------------- MODULE MCWalk -------------------------------
(***************************************************************************)
(* Random walks (tlc -simulate): any sequence of Depth steps over Vocab from *)
(* an initial state.  Every step is evaluated twice: phase A under the      *)
(* ideal reading (devs = {}) from the ideal state S, and phase B under      *)
(* devs = OpenDev from SR, the state of the "what the code does" reading,   *)
(* which follows the same walk and differs from S only in parts no client   *)
(* can see at that point (lazily expired objects, object identities,        *)
(* orphaned databases).  Where the two readings disagree observably, the    *)
(* deviated expectation is recorded for the step; a replayed walk stops     *)
(* there if the server takes the deviated branch, and otherwise the server  *)
(* has shown the ideal behaviour, so SR is re-synchronised with S.          *)
(* The finished walk is printed as one JSON replay case.                    *)
(***************************************************************************)
EXTENDS MCTree
CONSTANTS WalkOk(_, _)       \* WalkOk(S, st): lets a family steer the walk on the current state
VARIABLES pend, SR, cumdv    \* cumdv: deviations that shaped SR since it last coincided with S
wvars == <<S, hist, devs, step, op, pend, SR, cumdv>>

NoReal == [none |-> TRUE]
WInit == /\ S \in States
         /\ hist = <<>>
         /\ devs = {}
         /\ step = 0
         /\ op = [pre |-> StateFullJ(S)]
         /\ pend = <<>>
         /\ SR = S
         /\ cumdv = {}

\* what a client can observe of a server state
Visible(s) == <<[i \in DOMAIN s.dbs |-> Live(s.dbs[i], s.now)],
               [c \in DOMAIN s.conn |-> [s.conn[c] EXCEPT !.cas = FALSE, !.wid = <<>>, !.o = 0]]>>

PhaseA == /\ pend = <<>>
          /\ Len(hist) < Depth
          \* RandomElement: one successor per step (TLC would otherwise evaluate every command of the
          \* vocabulary, including its JSON rendering, just to pick one)
          /\ \E st \in {RandomElement({v \in Vocab : WalkOk(S, v)})} :      \* (bound once)
               LET res == StepOf(S, st)
               IN     /\ S' = res.S
                      /\ hist' = Append(hist, [c |-> st[1], cmd |-> st[2], r |-> res.r, post |-> StateFullJ(res.S),
                                               dv |-> res.dv, rel |-> res.rel, tol |-> res.tol, real |-> NoReal,
                                               proto |-> IF st[1] = 0 THEN 0 ELSE res.S.conn[st[1]].proto])
                      /\ pend' = IF OpenDev = {} THEN <<>> ELSE <<[st |-> st, r |-> res.r]>>
                      /\ devs' = IF OpenDev = {} THEN {} ELSE OpenDev
                      /\ SR' = IF OpenDev = {} THEN res.S ELSE SR
          /\ UNCHANGED <<step, op, cumdv>>
PhaseB == /\ pend # <<>>
          /\ LET res == StepOf(SR, pend[1].st)
                 same == res.r = pend[1].r /\ Visible(res.S) = Visible(S)
             IN  /\ hist' = [hist EXCEPT ![Len(hist)].real =
                              IF same THEN NoReal
                              ELSE [r |-> res.r, post |-> StateFullJ(res.S), dv |-> cumdv \cup res.dv, rel |-> res.rel, tol |-> res.tol,
                                    proto |-> IF pend[1].st[1] = 0 THEN 0 ELSE res.S.conn[pend[1].st[1]].proto]]
                 /\ SR' = IF same THEN res.S ELSE S
                 /\ cumdv' = IF same THEN cumdv \cup res.dv ELSE {}
          /\ pend' = <<>>
          /\ devs' = {}
          /\ UNCHANGED <<S, step, op>>
\* a finished walk takes one more (deterministic) step, so that it is printed exactly once: TLC evaluates
\* invariants on every candidate successor of a simulation step, not only on the chosen one
Finish == /\ pend = <<>> /\ Len(hist) = Depth /\ step = 0
          /\ step' = 1
          /\ UNCHANGED <<S, hist, devs, op, pend, SR, cumdv>>
WNext == PhaseA \/ PhaseB \/ Finish
WSpec == WInit /\ [][WNext]_wvars
AnyState(s, st) == TRUE
VocabOf(cmds) == {<<1, c>> : c \in cmds}

\* "invariant" that prints the finished walk
WPrint == step = 0 \/ PrintT(ToJson([fam |-> Fam, walk |-> TRUE, pre |-> op.pre, steps |-> hist]))
=============================================================================
