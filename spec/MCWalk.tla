------------------------------- MODULE MCWalk -------------------------------
(* Random walks (tlc -simulate): any sequence of steps over Vocab from an initial state,
   ideal reading; only the *program* is printed - it is then executed under both readings
   by MCProg (with Progs <- the generated set) so that walks and enumerated programs share
   one code path.  WalkOk(S, st) lets a family steer the walk (e.g. avoid useless steps).  *)
EXTENDS Universe
CONSTANTS Vocab, Depth, WalkOk(_, _)
VARIABLES prog
wvars == <<S, prog, devs, step, op>>

WStepOf(s, st) == IF st[1] = 0 THEN Tick(s, st[2][1]) ELSE Apply(s, st[1], st[2]).S

WInit == S \in States /\ prog = <<>> /\ devs = {} /\ step = 0 /\ op = [s0 |-> S]
WNext == /\ Len(prog) < Depth
         /\ \E st \in Vocab : /\ WalkOk(S, st)
                              /\ S' = WStepOf(S, st)
                              /\ prog' = Append(prog, st)
         /\ UNCHANGED <<devs, step, op>>
WSpec == WInit /\ [][WNext]_wvars
AnyStep(s, st) == TRUE
\* "invariant" that prints the finished walk
WPrint == Len(prog) < Depth \/ PrintT(ToJson([walk |-> prog, init |-> StateJ(op.s0)]))
=============================================================================
