SPECIFICATION Spec
CONSTANTS
  OpenDev = {}
  States <- SortStates
  CmdU <- SortCmds
  Relevant <- SortRelevant
  Fam = "sort"
ACTION_CONSTRAINT Emit
VIEW View
INVARIANT WellFormed
PROPERTY FailedInert
CHECK_DEADLOCK FALSE
