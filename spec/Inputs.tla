-------------------------------- MODULE Inputs ------------------------------
(***************************************************************************)
(* C13: hostile input as a generator with expectations.                     *)
(*                                                                         *)
(* (a) command level: every command name of the dispatcher x argument       *)
(*     vectors of length 0..4 over extreme argument classes (-2^63, 2^63-1, *)
(*     2^31, 2^32, -1, 0, empty, nan, inf, text, a key) x the type of that  *)
(*     key.  Expectation: exactly one well-formed reply within bounded time *)
(*     (whatever it is), the process alive, a second connection served.     *)
(* (b) byte level: every RESP type byte x declared lengths x truncation     *)
(*     points, blank lines, inline text, nested aggregates as arguments.    *)
(*     Expectation: process alive, a second connection served; a reply is   *)
(*     only required for well-formed arrays of bulk strings.                *)
(*                                                                         *)
(* KnownDead(name, args, keytype) classifies the inputs for which the       *)
(* emulator is known to die or hang (one deviation id per class).           *)
(***************************************************************************)
EXTENDS Universe

CmdNamesH ==
  {"APPEND", "BITCOUNT", "BITFIELD", "BITFIELD_RO", "BITOP", "BITPOS", "COPY", "DBSIZE", "DECR", "DECRBY", "DEL", "DISCARD", "DUMP", "ECHO",
   "EXEC", "EXISTS", "EXPIRE", "EXPIREAT", "EXPIRETIME", "FLUSHALL", "FLUSHDB", "GET", "GETBIT", "GETDEL", "GETEX", "GETRANGE", "GETSET",
   "HDEL", "HELLO", "HEXISTS", "HGET", "HGETALL", "HINCRBY", "HINCRBYFLOAT", "HKEYS", "HLEN", "HMGET", "HMSET", "HRANDFIELD", "HSCAN", "HSET",
   "HSETNX", "HSTRLEN", "HVALS", "INCR", "INCRBY", "INCRBYFLOAT", "INFO", "KEYS", "LCS", "LINDEX", "LINSERT", "LLEN", "LMOVE", "LMPOP", "LPOP",
   "LPOS", "LPUSH", "LPUSHX", "LRANGE", "LREM", "LSET", "LTRIM", "MGET", "MSET", "MSETNX", "MULTI", "PERSIST", "PEXPIRE", "PEXPIREAT",
   "PEXPIRETIME", "PING", "PSETEX", "PTTL", "RANDOMKEY", "RENAME", "RENAMENX", "RESTORE", "RPOP", "RPOPLPUSH", "RPUSH", "RPUSHX", "SADD",
   "SCAN", "SCARD", "SDIFF", "SDIFFSTORE", "SELECT", "SET", "SETBIT", "SETEX", "SETNX", "SETRANGE", "SINTER", "SINTERCARD", "SINTERSTORE",
   "SISMEMBER", "SMEMBERS", "SMISMEMBER", "SMOVE", "SORT", "SRANDMEMBER", "SREM", "SSCAN", "STRLEN", "SUBSTR", "SUNION", "SUNIONSTORE", "TOUCH",
   "TTL", "TYPE", "UNLINK", "UNWATCH", "WATCH", "CLIENT", "COMMAND", "NOSUCHCOMMAND"}
\* blocking commands are exercised by C11/C12 (a timeout of 0 legitimately never answers); QUIT closes the connection

AMin == B("-9223372036854775808")
AMax == B("9223372036854775807")
A31 == B("2147483648")
A32 == B("4294967296")
ACls == {ka, AMin, AMax, A31, A32, N(-1), N(0), N(1), B(""), B("nan"), B("inf"), x}
ASmall == {ka, AMin, AMax, N(0), x, B("")}
Sub == {B("LIST"), B("INFO"), B("GETNAME"), B("ID"), B("KILL"), B("SETNAME"), B("UNBLOCK"), B("COUNT"), B("DOCS"), B("GETKEYS"), B("HELP")}

Vectors == {<<>>} \cup {<<p>> : p \in ACls} \cup {<<p, q>> : p \in ACls, q \in ACls}
           \cup {<<ka, p, q>> : p \in ASmall, q \in ASmall} \cup {<<ka, p, q, r>> : p \in {AMin, AMax, N(0)}, q \in {AMin, AMax, x}, r \in {AMax, N(0), x}}
HostileCmds == {C(nm, v) : nm \in CmdNamesH \ {"CLIENT", "COMMAND"}, v \in Vectors}
               \cup {C(nm, <<sb>> \o v) : nm \in {"CLIENT", "COMMAND"}, sb \in Sub, v \in {<<>>} \cup {<<p>> : p \in ACls} \cup {<<p, q>> : p \in ASmall, q \in ASmall}}

KeyTypes == {"none", "string", "list", "hash", "set"}
PreOf(t) == CASE t = "none" -> EmptyDb
              [] t = "string" -> (ka :> VStr(B("10"), 0))
              [] t = "list" -> (ka :> VList(<<x, y>>, 0))
              [] t = "hash" -> (ka :> VHash((f :> x), 0))
              [] t = "set" -> (ka :> VSet({x, y}, 0))

IsHuge(b) == b \in {AMax, A31, A32}
\* allocations of 2^31 / 2^32 units are legitimate but machine-dependent: not part of the claim
Heavy(nm, a) == nm \in {"SETBIT", "SETRANGE", "GETRANGE", "SUBSTR"} /\ \E j \in 1..Len(a) : a[j] \in {A31, A32}

(* Known crash / hang classes (each a finding with its own deviation id).  a = arguments after the name,
   t = type of key "a". *)
KnownDead(nm, a, t) ==
    CASE nm = "SETRANGE" /\ Len(a) = 3 /\ a[1] = ka /\ t \in {"none", "string"} /\ a[2] \in {AMin, N(-1)} -> "D_SETRANGE_NEGATIVE_OFFSET_PANICS"
      [] nm = "SETRANGE" /\ Len(a) = 3 /\ a[1] = ka /\ t \in {"none", "string"} /\ a[2] = AMax -> "D_SETRANGE_HUGE_OFFSET_PANICS"
      [] nm = "SETBIT" /\ Len(a) = 3 /\ a[1] = ka /\ a[2] = AMax /\ a[3] \in {N(0), N(1)} -> "D_SETBIT_HUGE_OFFSET_PANICS"
      [] nm = "SETBIT" /\ Len(a) = 3 /\ a[1] = ka /\ t \in {"list", "hash", "set"} /\ a[2] \in {N(0), N(1)} /\ a[3] \in {N(0), N(1)} -> "D_SETBIT_WRONGTYPE_PANICS"
      [] nm \in {"LPOP", "RPOP"} /\ Len(a) = 2 /\ a[1] = ka /\ t = "list" /\ IsHuge(a[2]) -> "D_POP_HUGE_COUNT_PANICS"
      [] nm = "COPY" /\ Len(a) = 2 /\ a[1] = ka /\ t \in {"hash", "set"} -> "D_COPY_HASH_SET_PANICS"
      [] nm = "SORT" /\ a = <<ka>> /\ t = "set" -> "D_SORT_SET_PANICS"
      [] nm = "SRANDMEMBER" /\ a = <<ka, AMin>> /\ t = "set" -> "D_RANDMEMBER_MIN_COUNT_PANICS"
      [] nm = "HRANDFIELD" /\ a = <<ka, AMin>> /\ t = "hash" -> "D_RANDMEMBER_MIN_COUNT_PANICS"
      [] nm = "INFO" /\ a = <<>> -> "D_RESP2_VERBATIM_AS_SIMPLE_STRING_WITH_PREFIX"
      [] nm = "CLIENT" /\ a = <<B("LIST")>> -> "D_RESP2_VERBATIM_AS_SIMPLE_STRING_WITH_PREFIX"
      [] OTHER -> "none"

(* Sequences of commands on one connection that need keywords or several steps *)
Specials ==
  { \* ranges and counts that reach beyond the ends of a collection; a collection emptied by its last removal
    [seq |-> <<C("RPUSH", <<ka, x, y, x>>), C("LTRIM", <<ka, N(5), N(10)>>), C("LLEN", <<ka>>)>>, known |-> "none"],
    [seq |-> <<C("RPUSH", <<ka, x, y, x>>), C("LTRIM", <<ka, N(3), N(3)>>), C("LTRIM", <<ka, N(-100), N(-50)>>), C("LRANGE", <<ka, N(7), N(9)>>), C("LINDEX", <<ka, N(3)>>), C("LSET", <<ka, N(3), x>>)>>, known |-> "none"],
    [seq |-> <<C("HSET", <<ka, f, x, x, y>>), C("HDEL", <<ka, f, x>>), C("HRANDFIELD", <<ka>>), C("HRANDFIELD", <<ka, N(-2)>>), C("HLEN", <<ka>>)>>, known |-> "none"],
    [seq |-> <<C("SADD", <<ka, x, y>>), C("SREM", <<ka, x, y>>), C("SRANDMEMBER", <<ka>>), C("SRANDMEMBER", <<ka, N(-2)>>), C("SPOP", <<ka>>)>>, known |-> "none"],
    [seq |-> <<C("SADD", <<ka, x>>), C("SPOP", <<ka>>), C("SRANDMEMBER", <<ka, N(-3)>>), C("SMOVE", <<ka, kb, x>>)>>, known |-> "none"],
    [seq |-> <<C("RPUSH", <<ka, x>>), C("LPOP", <<ka>>), C("LPOP", <<ka>>), C("RPOPLPUSH", <<ka, ka>>), C("LMPOP", <<N(1), ka, W("RIGHT")>>)>>, known |-> "none"],
    \* DUMP / RESTORE round trips of every type ("@DUMP" = the payload the last DUMP returned), then the restored key is used
    [seq |-> <<C("SET", <<ka, x>>), C("DUMP", <<ka>>), C("RESTORE", <<kb, N(0), W("@DUMP")>>), C("GET", <<kb>>), C("APPEND", <<kb, y>>), C("RESTORE", <<kb, N(0), W("@DUMP")>>), C("RESTORE", <<kb, N(0), W("@DUMP"), W("REPLACE")>>)>>, known |-> "none"],
    [seq |-> <<C("RPUSH", <<ka, x, y>>), C("DUMP", <<ka>>), C("RESTORE", <<kb, N(0), W("@DUMP")>>), C("TYPE", <<kb>>), C("LLEN", <<kb>>), C("LRANGE", <<kb, N(0), N(-1)>>), C("RPUSH", <<kb, x>>), C("LPOP", <<kb>>)>>, known |-> "none"],
    [seq |-> <<C("HSET", <<ka, f, x>>), C("DUMP", <<ka>>), C("RESTORE", <<kb, N(0), W("@DUMP")>>), C("TYPE", <<kb>>), C("HLEN", <<kb>>), C("HGETALL", <<kb>>), C("HSET", <<kb, x, y>>), C("HRANDFIELD", <<kb>>)>>, known |-> "none"],
    [seq |-> <<C("SADD", <<ka, x, y>>), C("DUMP", <<ka>>), C("RESTORE", <<kb, N(0), W("@DUMP")>>), C("TYPE", <<kb>>), C("SCARD", <<kb>>), C("SMEMBERS", <<kb>>), C("SADD", <<kb, f>>), C("SPOP", <<kb>>), C("KEYS", <<W("*")>>), C("DBSIZE", <<>>)>>, known |-> "none"],
    [seq |-> <<C("DUMP", <<ka>>), C("RESTORE", <<kb, N(0), W("@DUMP")>>), C("RESTORE", <<kb, N(0), x>>), C("RESTORE", <<kb, AMin, <<1, 8, 0, 0>>>>), C("EXISTS", <<kb>>)>>, known |-> "none"],
    [seq |-> <<C("RPUSH", <<ka, x, y>>), C("LMPOP", <<N(1), ka, W("LEFT"), W("COUNT"), AMax>>)>>, known |-> "D_LMPOP_HUGE_COUNT_PANICS"],
    [seq |-> <<C("SET", <<ka, x>>), C("SCAN", <<N(0), W("COUNT"), AMax>>)>>, known |-> "D_SCAN_HUGE_COUNT_PANICS"],
    [seq |-> <<C("HSET", <<ka, f, x>>), C("HSCAN", <<ka, N(0), W("COUNT"), AMax>>)>>, known |-> "D_SCAN_HUGE_COUNT_PANICS"],
    [seq |-> <<C("SADD", <<ka, x>>), C("SSCAN", <<ka, N(0), W("COUNT"), AMax>>)>>, known |-> "D_SCAN_HUGE_COUNT_PANICS"],
    [seq |-> <<C("SET", <<ka, B("")>>), C("BITCOUNT", <<ka>>)>>, known |-> "D_BITCOUNT_EMPTY_STRING_PANICS"],
    [seq |-> <<C("MULTI", <<>>), C("CLIENT", <<W("LIST")>>), C("EXEC", <<>>)>>, known |-> "D_EXEC_CLIENT_LIST_DEADLOCKS"],
    [seq |-> <<C("MULTI", <<>>), C("CLIENT", <<W("INFO")>>), C("EXEC", <<>>)>>, known |-> "none"],
    [seq |-> <<C("SCAN", <<N(0), W("COUNT"), N(0)>>), C("SCAN", <<AMax>>), C("SCAN", <<x>>), C("HSCAN", <<ka, AMin>>)>>, known |-> "none"],
    [seq |-> <<C("SET", <<ka, x>>), C("EXPIRE", <<ka, AMax>>), C("TTL", <<ka>>), C("PEXPIRE", <<ka, AMax>>), C("PTTL", <<ka>>), C("EXPIREAT", <<ka, AMax>>), C("GET", <<ka>>)>>, known |-> "none"],
    [seq |-> <<C("SET", <<ka, AMax>>), C("INCR", <<ka>>), C("INCRBYFLOAT", <<ka, B("1e308")>>), C("INCRBYFLOAT", <<ka, B("1e308")>>), C("DECRBY", <<ka, AMin>>)>>, known |-> "none"],
    [seq |-> <<C("RPUSH", <<ka, x>>), C("LRANGE", <<ka, AMin, AMax>>), C("LTRIM", <<ka, AMax, AMin>>), C("LINDEX", <<ka, AMin>>), C("LSET", <<ka, AMax, x>>), C("LREM", <<ka, AMin, x>>),
                C("LPOS", <<ka, x, W("RANK"), AMin>>), C("LPOS", <<ka, x, W("COUNT"), AMax, W("MAXLEN"), AMax>>)>>, known |-> "none"],
    [seq |-> <<C("SELECT", <<AMax>>), C("SELECT", <<AMin>>), C("HELLO", <<AMax>>), C("PING", <<>>)>>, known |-> "none"],
    [seq |-> <<C("SET", <<ka, x, W("EX"), AMax>>), C("SET", <<ka, x, W("PX"), AMax>>), C("SET", <<ka, x, W("EXAT"), AMax>>), C("GETEX", <<ka, W("EX"), AMax>>), C("SETEX", <<ka, AMax, x>>)>>, known |-> "none"] }

(* (b) byte level *)
CRLF2 == <<13, 10>>
TypeBytes == {43, 45, 58, 36, 42, 37, 126, 62, 124, 61, 33, 40, 44, 35, 95, 46}
Lens == {B("-2"), B("-1"), B("0"), B("1"), B("2"), B("2147483648"), B("9223372036854775807"), B("10000000000000"), B("x"), B("")}
GetA == <<42, 50, 13, 10, 36, 51, 13, 10, 71, 69, 84, 13, 10, 36, 49, 13, 10, 97, 13, 10>>     \* *2 $3 GET $1 a
L31 == B("2147483648")
L13 == B("10000000000000")
L63 == B("9223372036854775807")
\* known fatal declarations: a length-prefixed string of 2^63-1 bytes; an aggregate of 2^31 or more elements
\* (under the 6 GB address-space limit the hostile children run with)
KnownTL(t, l) ==
    IF t \in {36, 33, 61} /\ l = L63 THEN "D_BULK_HUGE_LENGTH_PANICS"
    ELSE IF (t \in {42, 37, 62} /\ l \in {L31, L13, L63}) \/ (t \in {126, 124} /\ l = L31) THEN "D_AGGREGATE_HUGE_COUNT_PANICS"
    ELSE "none"
GetPre == <<42, 50, 13, 10, 36, 51, 13, 10, 71, 69, 84, 13, 10>>
RawCases ==
    UNION {
      {[raw |-> <<t>> \o l \o CRLF2, reply |-> FALSE, known |-> KnownTL(t, l)] : t \in TypeBytes, l \in Lens},
      {[raw |-> <<42, 49, 13, 10, t>> \o l \o CRLF2, reply |-> FALSE, known |-> KnownTL(t, l)] : t \in TypeBytes, l \in Lens},            \* as the only array element
      {[raw |-> GetPre \o <<t>> \o l \o CRLF2 \o <<120, 13, 10>>, reply |-> FALSE, known |-> KnownTL(t, l)] : t \in TypeBytes, l \in Lens},   \* as argument of GET
      {[raw |-> SubSeq(GetA, 1, n), reply |-> FALSE, known |-> "none"] : n \in 1..(Len(GetA) - 1)},                          \* every truncation of a valid command
      {[raw |-> GetA, reply |-> TRUE, known |-> "none"], [raw |-> GetA \o GetA, reply |-> FALSE, known |-> "none"]},
      {[raw |-> CRLF2, reply |-> FALSE, known |-> "D_BLANK_LINE_PANICS"],
       [raw |-> GetPre \o <<126, 49, 13, 10, 42, 49, 13, 10, 36, 49, 13, 10, 97, 13, 10>>, reply |-> FALSE, known |-> "D_UNHASHABLE_SET_MEMBER_PANICS"]},
      {[raw |-> r, reply |-> FALSE, known |-> "none"] : r \in {<<10>>, <<13>>, <<0>>, <<255, 254, 13, 10>>, B("PING") \o CRLF2, B("GET a") \o CRLF2, <<42, 48, 13, 10>>, <<42, 45, 49, 13, 10>>,
                                              <<42, 49, 13, 10, 58, 53, 13, 10>>, <<42, 49, 13, 10, 95, 13, 10>>,
                                              <<42, 50, 13, 10, 36, 52, 13, 10>> \o B("ECHO") \o CRLF2 \o <<42, 49, 13, 10, 36, 49, 13, 10, 120, 13, 10>>,
                                              GetPre \o <<37, 49, 13, 10, 36, 49, 13, 10, 97, 13, 10, 36, 49, 13, 10, 98, 13, 10>>,
                                              GetPre \o <<35, 116, 13, 10>>, GetPre \o <<44, 49, 46, 53, 13, 10>>, GetPre \o <<58, 53, 13, 10>>,
                                              <<36, 51, 13, 10, 71, 69, 84, 13, 10>>, <<43, 79, 75, 13, 10>>} } }
\* RESP3 streamed forms: strings / blob errors of unknown length ($? / !? followed by ;<len> chunks, ended by ;0) and
\* aggregates of unknown length (*? %? ~? >? ended by .), with every chunk length of Lens, truncated, unterminated,
\* at top level, as the only array element, and as the argument of GET
StreamPre == {<<>>, <<42, 49, 13, 10>>, GetPre}
StreamedCases ==
    UNION {
      {[raw |-> pre \o <<t, 63>> \o CRLF2 \o <<59>> \o l \o CRLF2 \o tl, reply |-> FALSE, known |-> "none"] :
          pre \in StreamPre, t \in {36, 33}, l \in Lens, tl \in {<<>>, <<120, 13, 10>>, <<120, 13, 10, 59, 48, 13, 10>>, <<59, 48, 13, 10>>}},
      {[raw |-> pre \o <<t, 63>> \o CRLF2 \o body, reply |-> FALSE, known |-> "none"] :
          pre \in StreamPre, t \in {42, 37, 126, 62, 36, 33},
          body \in {<<>>, <<46, 13, 10>>, <<36, 49, 13, 10, 97, 13, 10, 46, 13, 10>>, <<58, 49, 13, 10>>, <<59, 45, 50, 13, 10>>, <<59, 13, 10>>, <<46>>,
                    <<36, 63, 13, 10, 59, 45, 49, 13, 10>>, <<42, 63, 13, 10, 46, 13, 10, 46, 13, 10>>}},
      \* a well-formed command whose arguments are streamed strings: GET a
      {[raw |-> <<42, 50, 13, 10, 36, 63, 13, 10, 59, 51, 13, 10, 71, 69, 84, 13, 10, 59, 48, 13, 10, 36, 63, 13, 10, 59, 49, 13, 10, 97, 13, 10, 59, 48, 13, 10>>, reply |-> FALSE, known |-> "none"]} }
\* a slow or fragmenting client: well-formed commands that arrive in two segments with a pause - the first command of a
\* connection cut at every offset; a complete PING followed by a GET cut at every offset (the pending piece of the
\* second command lies behind bytes that were already consumed); every one of them must be answered
PingA == <<42, 49, 13, 10, 36, 52, 13, 10, 80, 73, 78, 71, 13, 10>>
SlowCases == {[raw |-> GetA, reply |-> TRUE, known |-> "none", cut |-> n, replies |-> 1] : n \in 1..(Len(GetA) - 1)}
             \cup {[raw |-> PingA \o GetA, reply |-> TRUE, known |-> "none", cut |-> n, replies |-> 2] : n \in 1..(Len(PingA) + Len(GetA) - 1)}
ASSUME PrintT(ToJson([rawcases |-> SlowCases]))
ASSUME PrintT(ToJson([rawcases |-> {[raw |-> rc.raw, reply |-> rc.reply, known |-> IF rc.known \in OpenDev THEN rc.known ELSE "none"] : rc \in RawCases \cup StreamedCases}]))

VARIABLES hc, ht
ivars == <<S, step, op, devs, hc, ht>>
ASSUME PrintT(ToJson([specials |-> {[seq |-> sp.seq, known |-> IF sp.known \in OpenDev THEN sp.known ELSE "none"] : sp \in Specials}]))
HName(c) == IF Upper(c[1]) = B("NOSUCHCOMMAND") THEN "?" ELSE
            LET u == Upper(c[1]) IN IF u \in DOMAIN NameOf THEN NameOf[u] ELSE (IF u = B("SCAN") THEN "SCAN" ELSE IF u = B("HSCAN") THEN "HSCAN"
                 ELSE IF u = B("SSCAN") THEN "SSCAN" ELSE IF u = B("INFO") THEN "INFO" ELSE IF u = B("COMMAND") THEN "COMMAND" ELSE IF u = B("DUMP") THEN "DUMP"
                 ELSE IF u = B("RESTORE") THEN "RESTORE" ELSE "?")
IInit == hc \in HostileCmds /\ ht \in KeyTypes /\ S = InitServer({1}) /\ step = 0 /\ op = [none |-> TRUE] /\ devs = OpenDev
         /\ ~Heavy(HName(hc), Tail(hc))
         /\ PrintT(ToJson([hostile |-> TRUE, cmd |-> hc, pre |-> StateJ(WithDb0(InitServer({1}), PreOf(ht))),
                           known |-> LET kd == KnownDead(HName(hc), Tail(hc), ht) IN IF kd \in devs THEN kd ELSE "none"]))
INext == FALSE /\ UNCHANGED ivars
=============================================================================
