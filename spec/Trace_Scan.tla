------------------------------ MODULE Trace_Scan ----------------------------
(* judge configuration of ScanHist: every recorded history of HistFile is evaluated *)
EXTENDS ScanHist
ASSUME PrintT(<<"SCANVERDICTS", ToJson(Verdicts)>>)
TInit == present = {} /\ prog = <<>> /\ mode = "judge"
TNext == FALSE /\ UNCHANGED svars
=============================================================================
