------------------------------ MODULE Lifecycle -----------------------------
(***************************************************************************)
(* C20: emulator instances, their listening port and their connections.     *)
(*                                                                         *)
(*   inst[i]  \in {"new", "running", "closed"}                              *)
(*   port     : which instance listens on the (one) port, 0 = free          *)
(*   conn[c]  : [of |-> instance, act |-> activity, open |-> BOOLEAN]       *)
(*   data[i]  : set of keys stored in instance i                            *)
(* Actions: Start(i), Connect(c, i, activity), Write(c), Close(i).          *)
(* Close(i) = RequestTermination + WaitForTermination: it returns (it is a  *)
(* single step here - the bounded-time obligation is checked on the real    *)
(* code with a watchdog), closes every connection of i whatever it is doing *)
(* and frees the port.                                                      *)
(* TLC checks the properties below on every behaviour of the bounded model  *)
(* and prints each scenario (sequence of actions) for replay against the    *)
(* public API in a child process.                                           *)
(***************************************************************************)
EXTENDS Integers, Sequences, FiniteSets, TLC, Json
CONSTANTS Insts, Conns, Acts, MaxSteps
VARIABLES inst, port, conn, data, trace
lvars == <<inst, port, conn, data, trace>>

NoConn == [of |-> 0, act |-> "none", open |-> FALSE]
LInit == /\ inst = [i \in Insts |-> "new"]
         /\ port = 0
         /\ conn = [c \in Conns |-> NoConn]
         /\ data = [i \in Insts |-> {}]
         /\ trace = <<>>

Start(i) == /\ inst[i] = "new" /\ port = 0
            /\ inst' = [inst EXCEPT ![i] = "running"]
            /\ port' = i
            /\ trace' = Append(trace, [a |-> "start", i |-> i])
            /\ UNCHANGED <<conn, data>>
Connect(c, a) == /\ port # 0 /\ conn[c] = NoConn
                 /\ conn' = [conn EXCEPT ![c] = [of |-> port, act |-> a, open |-> TRUE]]
                 /\ data' = [data EXCEPT ![port] = @ \cup {c}]            \* every client stores a key of its own first
                 /\ trace' = Append(trace, [a |-> "connect", c |-> c, act |-> a])
                 /\ UNCHANGED <<inst, port>>
Close(i) == /\ inst[i] = "running"
            /\ inst' = [inst EXCEPT ![i] = "closed"]
            /\ port' = IF port = i THEN 0 ELSE port
            /\ conn' = [c \in Conns |-> IF conn[c].of = i THEN [conn[c] EXCEPT !.open = FALSE] ELSE conn[c]]
            /\ trace' = Append(trace, [a |-> "close", i |-> i])
            /\ UNCHANGED data
LNext == /\ Len(trace) < MaxSteps
         /\ \/ \E i \in Insts : Start(i) \/ Close(i)
            \/ \E c \in Conns, a \in Acts : Connect(c, a)
LSpec == LInit /\ [][LNext]_lvars

\* no client of a closed instance can still talk to it
ClosedMeansDisconnected == \A c \in Conns : (conn[c].of # 0 /\ inst[conn[c].of] = "closed") => ~conn[c].open
\* the port belongs to at most one running instance, and is free when nobody runs
PortConsistent == (port # 0 => inst[port] = "running") /\ ((\A i \in Insts : inst[i] # "running") => port = 0)
\* a successor on the same port starts empty: an instance only ever holds keys written by its own clients
NoSharedData == \A i \in Insts : \A c \in data[i] : conn[c].of = i
\* scenarios worth replaying: at least one close with a connection open at that moment, or a restart
Interesting == \E k \in 1..Len(trace) : trace[k].a = "close"
LEmit == (Len(trace') = MaxSteps /\ \E k \in 1..Len(trace') : trace'[k].a = "close") => PrintT(ToJson([life |-> trace']))
=============================================================================
