------------------------------ MODULE Lifecycle -----------------------------
(***************************************************************************)
(* C20: emulator instances, their listening port and their connections.     *)
(*                                                                         *)
(*   inst[i]  \in {"new", "running", "closed"}                              *)
(*   port[p]  : which instance listens on port slot p, 0 = free             *)
(*   conn[c]  : [of |-> instance, act |-> activity, open |-> BOOLEAN]       *)
(*   data[i]  : set of keys stored in instance i                            *)
(* Actions: Start(i, p), Connect(c, p, activity), Close(i), Quit(i) - the    *)
(* quit channel given to NewEmulator is signalled and WaitForTermination is  *)
(* awaited: same obligations as Close.                                       *)
(* Close(i) = RequestTermination + WaitForTermination: it returns (it is a  *)
(* single step here - the bounded-time obligation is checked on the real    *)
(* code with a watchdog), closes every connection of i whatever it is doing *)
(* and frees the port.                                                      *)
(* TLC checks the properties below on every behaviour of the bounded model  *)
(* and prints each scenario (sequence of actions) for replay against the    *)
(* public API in a child process.                                           *)
(***************************************************************************)
EXTENDS Integers, Sequences, FiniteSets, TLC, Json
CONSTANTS Insts, Conns, Acts, MaxSteps, Ports
VARIABLES inst, port, conn, data, trace
lvars == <<inst, port, conn, data, trace>>

NoConn == [of |-> 0, act |-> "none", open |-> FALSE]
LInit == /\ inst = [i \in Insts |-> "new"]
         /\ port = [p \in Ports |-> 0]
         /\ conn = [c \in Conns |-> NoConn]
         /\ data = [i \in Insts |-> {}]
         /\ trace = <<>>

Start(i, p) == /\ inst[i] = "new" /\ port[p] = 0
               /\ inst' = [inst EXCEPT ![i] = "running"]
               /\ port' = [port EXCEPT ![p] = i]
               /\ trace' = Append(trace, [a |-> "start", i |-> i, p |-> p])
               /\ UNCHANGED <<conn, data>>
Connect(c, a, p) == /\ port[p] # 0 /\ conn[c] = NoConn
                    /\ conn' = [conn EXCEPT ![c] = [of |-> port[p], act |-> a, open |-> TRUE]]
                    /\ data' = [data EXCEPT ![port[p]] = @ \cup {c}]            \* every client stores a key of its own first
                    /\ trace' = Append(trace, [a |-> "connect", c |-> c, act |-> a, p |-> p])
                    /\ UNCHANGED <<inst, port>>
\* how: "close" (Close()) or "quit" (the quit channel, then WaitForTermination)
Stop(i, how) == /\ inst[i] = "running"
                /\ inst' = [inst EXCEPT ![i] = "closed"]
                /\ port' = [p \in Ports |-> IF port[p] = i THEN 0 ELSE port[p]]
                \* only the connections of THIS instance are affected
                /\ conn' = [c \in Conns |-> IF conn[c].of = i THEN [conn[c] EXCEPT !.open = FALSE] ELSE conn[c]]
                /\ trace' = Append(trace, [a |-> how, i |-> i])
                /\ UNCHANGED data
LNext == /\ Len(trace) < MaxSteps
         /\ \/ \E i \in Insts : (\E p \in Ports : Start(i, p)) \/ Stop(i, "close") \/ Stop(i, "quit")
            \/ \E c \in Conns, a \in Acts, p \in Ports : Connect(c, a, p)
LSpec == LInit /\ [][LNext]_lvars

\* no client of a closed instance can still talk to it
ClosedMeansDisconnected == \A c \in Conns : (conn[c].of # 0 /\ inst[conn[c].of] = "closed") => ~conn[c].open
\* the port belongs to at most one running instance, and is free when nobody runs
PortConsistent == /\ \A p \in Ports : port[p] # 0 => inst[port[p]] = "running"
                  /\ \A p, q \in Ports : (p # q /\ port[p] # 0) => port[p] # port[q]
                  /\ (\A i \in Insts : inst[i] # "running") => \A p \in Ports : port[p] = 0
\* stopping an instance leaves the connections of the other instances alone
StopIsLocal == [][\A c \in Conns : (conn[c].open /\ ~conn'[c].open) => inst'[conn[c].of] = "closed"]_lvars
\* a successor on the same port starts empty: an instance only ever holds keys written by its own clients
NoSharedData == \A i \in Insts : \A c \in data[i] : conn[c].of = i
\* scenarios worth replaying: at least one close with a connection open at that moment, or a restart
LEmit == (Len(trace') = MaxSteps /\ \E k \in 1..Len(trace') : trace'[k].a \in {"close", "quit"}) => PrintT(ToJson([life |-> trace']))
=============================================================================
