----------------------------- MODULE MCBlockProg ----------------------------
(* Given blocking scenarios: as MCBlock, but the programs are not all sequences over a vocabulary - they are
   the members of BProgs, families of scenarios written out in the model module (each a pair
   <<initial state, sequence of steps>>).  Used for schedules that are too long for the exhaustive tree:
   three waiters of which the middle one leaves, two pushes before the first woken waiter has popped,
   block / unblock cycles on one connection, blocking commands inside MULTI, timeouts against two steps of the
   model clock.  Both readings are enumerated; a program in which a step is not enabled (the issuing connection
   is blocked or closed) is dropped. *)
EXTENDS MCBlock
CONSTANTS BProgs
VARIABLES prog
pbvars == <<S, hist, pre, devs, prog>>

PBInit == /\ prog \in BProgs /\ S = prog[1] /\ hist = <<>> /\ devs \in {{}, OpenDev} /\ pre = BStateJ(S)
PBNext == /\ Len(hist) < Len(prog[2])
          /\ LET st == prog[2][Len(hist) + 1]
                 res == BStepOf(S, st)
             IN  /\ res.r.t # "skip"
                 /\ S' = res.S
                 /\ hist' = Append(hist, [c |-> st[1], cmd |-> st[2], r |-> res.r, post |-> BStateJ(res.S), dv |-> res.dv,
                                          rel |-> {}, tol |-> {}, deferred |-> res.deferred])
          /\ UNCHANGED <<devs, pre, prog>>
PBSpec == PBInit /\ [][PBNext]_pbvars
PBEmit == (Len(hist') = Len(prog[2])) => PrintT(ToJson([fam |-> Fam, dev |-> devs # {}, block |-> TRUE, pre |-> pre, steps |-> hist']))
PBOncePerStep == [][\A j, m \in 1..Len(hist'[Len(hist')].deferred) : j # m => hist'[Len(hist')].deferred[j].c # hist'[Len(hist')].deferred[m].c]_pbvars
=============================================================================
