---------------------------- MODULE MC_blockprog ----------------------------
(* C11 / C12: scenario families for the block / wake protocol that need more steps than the exhaustive tree
   of MC_block has.  Connections 1, 2 and 4 block, connection 3 acts. *)
EXTENDS MCBlockProg
ka == B("a")
kb == B("b")
x == B("x")
y == B("y")
N(i) == Itoa(i)
C(name, args) == <<B(name)>> \o args
W(s) == B(s)
S0 == InitServer({1, 2, 3, 4})
SList == WithDb0(S0, (ka :> VList(<<x, y>>, 0)))
SDstStr == WithDb0(S0, (kb :> VStr(x, 0)))

BLPop0 == C("BLPOP", <<ka, N(0)>>)
BLPop1 == C("BLPOP", <<ka, N(1)>>)
BRPop2 == C("BRPOP", <<ka, kb, N(0)>>)
BLMove == C("BLMOVE", <<ka, kb, W("LEFT"), W("RIGHT"), N(0)>>)
BRPopLPush == C("BRPOPLPUSH", <<ka, kb, N(0)>>)
BLMPop == C("BLMPOP", <<N(0), N(1), ka, W("LEFT"), W("COUNT"), N(2)>>)
Five == {BLPop0, BRPop2, BLMove, BRPopLPush, BLMPop}
PushA == C("RPUSH", <<ka, x>>)
PushB == C("RPUSH", <<kb, y>>)
LLenA == C("LLEN", <<ka>>)
PingC == C("PING", <<>>)
Unblock(n, mode) == IF mode = "" THEN C("CLIENT", <<W("UNBLOCK"), W("@ID:" \o ToString(n))>>)
                    ELSE C("CLIENT", <<W("UNBLOCK"), W("@ID:" \o ToString(n)), W(mode)>>)
Gate(g) == <<W("@gate"), W(g)>>
Release == <<W("@release")>>
Tk(n) == <<0, <<n>>>>

\* A (C11): three waiters on one list, the middle one leaves (timeout, CLIENT UNBLOCK, or served through its
\* other key) before the third arrives: the pushes must go to the first, then to the third
FamA == UNION {
   { <<S0, << <<1, b1>>, <<2, BLPop1>>, Tk(1200), <<4, b3>>, <<3, PushA>>, <<3, PushA>>, <<3, LLenA>> >> >>,
     <<S0, << <<1, b1>>, <<2, BLPop0>>, <<3, Unblock(2, "")>>, <<4, b3>>, <<3, PushA>>, <<3, PushA>>, <<3, LLenA>> >> >>,
     <<S0, << <<1, b1>>, <<2, BLPop0>>, <<3, Unblock(2, "ERROR")>>, <<4, b3>>, <<3, PushA>>, <<3, PushA>>, <<3, LLenA>> >> >>,
     <<S0, << <<1, b1>>, <<2, BRPop2>>, <<3, PushB>>, <<4, b3>>, <<3, PushA>>, <<3, PushA>>, <<3, LLenA>> >> >>,
     <<S0, << <<1, b1>>, <<2, BLPop0>>, <<4, b3>>, <<3, Unblock(2, "")>>, <<3, PushA>>, <<3, PushA>>, <<3, LLenA>> >> >> }
   : b1 \in {BLPop0, BRPop2}, b3 \in {BLPop0, BLMPop} }

\* B (C11): two waiters, two pushes before the first woken waiter has taken its element (held at after_wake,
\* or both pushes inside one EXEC): both waiters must be served, nothing is left over
\* (in the EXEC variant every waiter takes one element: both are woken while EXEC still holds the data store, and the
\*  order in which the two woken goroutines then retry is up to the Go scheduler - a waiter that takes two elements
\*  would make the outcome depend on it)
FamB == UNION {
   { <<S0, << <<1, Gate("after_wake")>>, <<1, b1>>, <<2, b2>>, <<3, PushA>>, <<3, PushA>>, <<1, Release>>, <<3, LLenA>> >> >> }
   : b1 \in {BLPop0, BLMPop}, b2 \in {BLPop0, BRPop2, BLMove} }
   \cup { <<S0, << <<1, b1>>, <<2, b2>>, <<3, C("MULTI", <<>>)>>, <<3, PushA>>, <<3, PushA>>, <<3, C("EXEC", <<>>)>>, <<3, LLenA>> >> >>
          : b1 \in {BLPop0, BRPop2}, b2 \in {BLPop0, BRPop2, BLMove} }
   \* the first waiter is woken, its element is taken by somebody else before it looks, it goes on waiting: it is
   \* still the longest waiter, and the next pushes serve it first, then the second waiter
   \cup { <<S0, << <<1, Gate("after_wake")>>, <<1, b1>>, <<2, BLPop0>>, <<3, PushA>>, <<3, C("LPOP", <<ka>>)>>, <<1, Release>>,
                   <<3, PushA>>, <<3, PushA>>, <<3, LLenA>> >> >> : b1 \in {BLPop0, BRPop2} }

\* C (C12): block / end / block again on one connection, in every combination of how the block ends
Ends(n) == { << <<3, Unblock(n, "")>> >>, << <<3, Unblock(n, "ERROR")>> >>, << <<3, Unblock(n, "TIMEOUT")>> >>, << <<3, PushA>> >> }
FamC == { <<S0, << <<1, b1>> >> \o e1 \o << <<1, PingC>>, <<1, b2>> >> \o e2 \o << <<1, PingC>>, <<3, LLenA>> >> >>
          : b1 \in {BLPop0, BLMove}, b2 \in {BLPop0, BRPop2}, e1 \in Ends(1), e2 \in Ends(1) }
        \cup { <<S0, << <<1, BLPop1>>, Tk(1200), <<1, BLPop1>>, <<3, PushA>>, <<1, BLPop1>>, <<3, Unblock(1, "")>>, <<1, PingC>> >> >> }

\* D (C12): blocking commands inside MULTI never block, whether or not there is something to pop
FamD == UNION { { <<s, << <<1, C("MULTI", <<>>)>>, <<1, bc>>, <<1, C("EXEC", <<>>)>>, <<1, PingC>>, <<3, PushA>>, <<3, LLenA>> >> >>,
                  <<s, << <<1, C("MULTI", <<>>)>>, <<1, bc>>, <<1, BLPop1>>, <<1, C("EXEC", <<>>)>>, <<2, BLPop0>>, <<3, PushA>>, <<3, LLenA>> >> >> }
                : bc \in Five \cup {BLPop1}, s \in {S0, SList} }

\* E (C12): the timeout is a deadline, not a budget that starts again after a wake-up whose element was taken
FamE == { <<S0, << <<1, Gate("after_wake")>>, <<1, BLPop1>>, Tk(600), <<3, PushA>>, <<3, C("LPOP", <<ka>>)>>, <<1, Release>>, Tk(600), <<1, PingC>> >> >>,
          <<S0, << <<1, BLPop1>>, Tk(600), <<3, LLenA>>, Tk(600), <<1, PingC>> >> >>,
          <<S0, << <<1, BLPop1>>, <<2, BLPop0>>, Tk(600), <<3, Unblock(2, "")>>, Tk(600), <<3, PushA>>, <<3, LLenA>> >> >> }

\* F (C11): a waiter that cannot take the element (its destination is not a list) leaves it in the source
FamF == { <<SDstStr, << <<1, bc>>, <<3, PushA>>, <<3, LLenA>>, <<1, PingC>> >> >> : bc \in {BLMove, BRPopLPush} }
        \cup { <<SDstStr, << <<1, bc>>, <<2, BLPop0>>, <<3, PushA>>, <<3, LLenA>> >> >> : bc \in {BLMove, BRPopLPush} }

\* G (C11): a waiter is woken for an element that is gone again before it looks (RPUSH and LPOP inside one EXEC), goes on
\* waiting, and then leaves - by its timeout, by CLIENT UNBLOCK, or served by the next push; whatever it registered while it
\* waited must be gone with it: a later waiter gets the next element, nothing stays in the list while somebody waits
Rob == << <<3, C("MULTI", <<>>)>>, <<3, PushA>>, <<3, C("LPOP", <<ka>>)>>, <<3, C("EXEC", <<>>)>> >>
FamG == UNION {
   { <<S0, << <<1, BLPop1>> >> \o Rob \o << Tk(1200), <<1, PingC>>, <<2, b2>>, <<3, PushA>>, <<3, LLenA>> >> >>,
     <<S0, << <<1, BLPop0>> >> \o Rob \o << <<3, Unblock(1, "")>>, <<2, b2>>, <<3, PushA>>, <<3, LLenA>> >> >>,
     <<S0, << <<1, BRPopLPush>> >> \o Rob \o << <<3, Unblock(1, "ERROR")>>, <<2, b2>>, <<3, PushA>>, <<3, LLenA>> >> >>,
     <<S0, << <<1, BLPop0>> >> \o Rob \o << <<3, PushA>>, <<2, b2>>, <<3, PushA>>, <<3, LLenA>> >> >>,
     <<S0, << <<1, BLPop0>> >> \o Rob \o Rob \o << <<3, Unblock(1, "")>>, <<2, b2>>, <<4, BLPop0>>, <<3, PushA>>, <<3, PushA>>, <<3, LLenA>> >> >> }
   : b2 \in {BLPop0, BLMPop, BLMove} }

\* H (C11): the waited-for list is fed by MOVES, not pushes: two waiters on the destination, two elements moved into it
\* before the first woken waiter has popped (inside one EXEC, or with the first waiter held at after_wake) - the
\* second move finds the destination non-empty and must still wake the second waiter
BLPopB == C("BLPOP", <<kb, N(0)>>)
BRPopB == C("BRPOP", <<kb, ka, N(0)>>)
MoveAB == C("LMOVE", <<ka, kb, W("LEFT"), W("RIGHT")>>)
RplAB == C("RPOPLPUSH", <<ka, kb>>)
LLenB == C("LLEN", <<kb>>)
SSrc == WithDb0(S0, (B("s") :> VList(<<x, y, x>>, 0)))
MoveSB == C("LMOVE", <<B("s"), kb, W("LEFT"), W("RIGHT")>>)
RplSB == C("RPOPLPUSH", <<B("s"), kb>>)
FamH == UNION {
   { <<SSrc, << <<1, BLPopB>>, <<2, b2>>, <<3, C("MULTI", <<>>)>>, <<3, mv>>, <<3, mv>>, <<3, C("EXEC", <<>>)>>, <<3, LLenB>> >> >>,
     <<SSrc, << <<1, Gate("after_wake")>>, <<1, BLPopB>>, <<2, b2>>, <<3, mv>>, <<3, mv>>, <<1, Release>>, <<3, LLenB>> >> >>,
     <<SSrc, << <<1, Gate("after_wake")>>, <<1, BLPopB>>, <<2, b2>>, <<3, mv>>, <<3, C("RPUSH", <<kb, y>>)>>, <<1, Release>>, <<3, LLenB>> >> >>,
     <<SSrc, << <<1, Gate("after_wake")>>, <<1, BLPopB>>, <<2, b2>>, <<3, C("RPUSH", <<kb, y>>)>>, <<3, mv>>, <<1, Release>>, <<3, LLenB>> >> >> }
   : b2 \in {BLPopB, BRPopB}, mv \in {MoveSB, RplSB} }

NoStates == {}
AnyB(h, st) == TRUE
ProgsC11 == FamA \cup FamB \cup FamF \cup FamG \cup FamH
ProgsC12 == FamC \cup FamD \cup FamE
=============================================================================
