------------------------------- MODULE Persist ------------------------------
(***************************************************************************)
(* C19: persistence.  With a persist path the emulator keeps one file per   *)
(* database.  A clean shutdown writes the memory image; a restart loads     *)
(* what is on disk.                                                         *)
(*   RestartRestores (ideal): after shutdown + restart every database holds *)
(*     exactly the acknowledged state.                                      *)
(* The emulator only rewrites the file of a database whose `dirty` flag is  *)
(* set, and several mutators forget to set it; a flush drops the database   *)
(* object, so its (stale) file is never rewritten.  RestartDbs gives, for   *)
(* the case "the database was saved, then ONE command ran, then shutdown",  *)
(* what a restart loads under each reading.                                 *)
(***************************************************************************)
EXTENDS Universe

\* handlers that set the dirty flag explicitly when they change something
ExplicitDirty == {"LPUSH", "RPUSH", "LPUSHX", "RPUSHX", "LPOP", "RPOP", "LINSERT", "LREM", "LTRIM", "LMOVE", "RPOPLPUSH", "LMPOP",
                  "HSET", "HMSET", "HSETNX", "HDEL", "HINCRBY", "SADD", "SORT"}
EmuDirty(nm, cmd, d1, d2, now) ==
    \/ DOMAIN d1 # DOMAIN d2                                 \* a key object was stored in / removed from the table
    \/ (d1 # d2 /\ nm \in Recreating)                        \* the value object was re-created
    \/ (d1 # d2 /\ nm \in ExplicitDirty)
    \/ (nm = "HINCRBYFLOAT" /\ d1 # d2 /\ Len(cmd) >= 3 /\ cmd[2] \in DOMAIN d1 /\ d1[cmd[2]].ty = "hash" /\ cmd[3] \in DOMAIN d1[cmd[2]].h)
    \/ (nm = "SMOVE" /\ Len(cmd) >= 3 /\ LiveEnt(d1, now, cmd[3]) # LiveEnt(d2, now, cmd[3]))

\* what the writer puts on disk for database d: the broken copy of a list (KF-C06-03: head set, links missing,
\* count 0) is written as its first element only
Saved(d, nm, cmd) ==
    IF nm = "COPY" /\ Len(cmd) >= 3 /\ cmd[3] \in DOMAIN d /\ d[cmd[3]] = VList(<<>>, d[cmd[3]].exp)
       /\ cmd[2] \in DOMAIN d /\ d[cmd[2]].ty = "list"
    THEN [d EXCEPT ![cmd[3]] = VList(<<d[cmd[2]].l[1]>>, d[cmd[3]].exp)]
    ELSE d

\* S1: state when the files were last written (= loaded state), S2: state at shutdown after command cmd of connection c
RestartDbs(S1, S2, c, cmd) ==
    LET nm == CmdName(cmd)
        flushed(i) == (nm = "FLUSHALL" \/ (nm = "FLUSHDB" /\ i = S1.conn[c].db)) /\ Len(cmd) = 1
    IN  [i \in DbIds |->
           IF ~Real THEN S2.dbs[i]
           ELSE IF flushed(i) THEN S1.dbs[i]
           ELSE IF EmuDirty(nm, cmd, S1.dbs[i], S2.dbs[i], S2.now) THEN Saved(S2.dbs[i], nm, cmd)
           ELSE S1.dbs[i]]
PersistDv(S1, S2, c, cmd) ==
    LET nm == CmdName(cmd)
        lost == \E i \in DbIds : RestartDbs(S1, S2, c, cmd)[i] # S2.dbs[i]
    IN  IF ~Real \/ ~lost THEN {}
        ELSE IF nm \in {"FLUSHDB", "FLUSHALL"} THEN {"D_PERSIST_FLUSH_KEEPS_OLD_FILE"}
        ELSE {"D_PERSIST_CHANGE_WITHOUT_DIRTY_FLAG_NOT_SAVED"}

PsNext == /\ step = 0
          /\ step' = 1
          /\ UNCHANGED devs
          /\ \E c \in DOMAIN S.conn, cmd \in CmdU :
               LET res == Apply(S, c, cmd)
                   after == [res.S EXCEPT !.dbs = RestartDbs(S, res.S, c, cmd)]
               IN  /\ Relevant(S, cmd)
                   /\ S' = after
                   /\ op' = [fam |-> Fam, dev |-> devs # {}, pre |-> StateJ(S),
                             steps |-> << [c |-> c, cmd |-> cmd, r |-> res.r, post |-> StateJ(after),
                                          dv |-> res.dv \cup PersistDv(S, res.S, c, cmd), rel |-> res.rel, tol |-> res.tol] >>]
PsSpec == Init /\ [][PsNext]_vars

\* C19 on the ideal reading: a restart restores exactly the acknowledged state
RestartRestores == [][devs = {} => \A i \in DbIds : S'.dbs[i] = Apply(S, 1, op'.steps[1].cmd).S.dbs[i]]_vars
=============================================================================
