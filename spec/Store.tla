------------------------------- MODULE Store --------------------------------
(***************************************************************************)
(* One database: a finite function from keys (byte strings) to typed values *)
(* with an expiry deadline.  A key that is not in DOMAIN db does not exist. *)
(* exp = 0 means "no expiry"; otherwise the key is visible while now < exp. *)
(* An entry whose deadline has passed may still be *stored* (the emulator   *)
(* expires lazily): Live(db, now) is what every command must act on.        *)
(*                                                                         *)
(* devs is the set of enabled *named deviations*: places where the emulator *)
(* is known to differ from Redis.  devs = {} is the ideal specification on  *)
(* which the properties are model-checked; devs = open findings is "what    *)
(* the code does today".  Every deviating branch tags its result with its   *)
(* id.  It is a variable (never changed by any action) rather than a        *)
(* constant so that one TLC run can evaluate both readings of the spec:     *)
(* INSTANCE ... WITH Dev <- ... defeats TLC's caching of constant           *)
(* definitions and was measured 100x slower.                                *)
(***************************************************************************)
EXTENDS Resp

VARIABLE devs     \* the enabled deviations; constant along every behaviour ({} = ideal Redis semantics)

VStr(s, e)  == [ty |-> "string", s |-> s, exp |-> e]
VList(l, e) == [ty |-> "list", l |-> l, exp |-> e]
VHash(h, e) == [ty |-> "hash", h |-> h, exp |-> e]     \* h : [fields -> values], DOMAIN h # {}
VSet(m, e)  == [ty |-> "set", m |-> m, exp |-> e]      \* m # {}

EmptyDb == <<>>     \* function with empty domain

Has(db, k) == k \in DOMAIN db
Ty(db, k) == IF Has(db, k) THEN db[k].ty ELSE "none"
ExpOf(db, k) == IF Has(db, k) THEN db[k].exp ELSE 0
Put(db, k, v) == [x \in DOMAIN db \cup {k} |-> IF x = k THEN v ELSE db[x]]
Del(db, k) == [x \in DOMAIN db \ {k} |-> db[x]]
DelAll(db, ks) == [x \in DOMAIN db \ ks |-> db[x]]

IsLive(v, now) == v.exp = 0 \/ v.exp > now
Live(db, now) == [x \in {k \in DOMAIN db : IsLive(db[k], now)} |-> db[x]]

\* well-formedness of a database (C06: one type per key, no empty aggregates)
WFVal(v) == CASE v.ty = "string" -> TRUE
              [] v.ty = "list" -> v.l # <<>>
              [] v.ty = "hash" -> DOMAIN v.h # {}
              [] v.ty = "set" -> v.m # {}
              [] OTHER -> FALSE
WFDb(db) == \A k \in DOMAIN db : WFVal(db[k])

WrongType(db, k, ty) == Has(db, k) /\ db[k].ty # ty
WT == RErr("WRONGTYPE")
\* arity / syntax / not-an-integer: code ERR; tagged because the emulator detects these while parsing
EArg == [t |-> "err", code |-> "ERR", parse |-> TRUE]
IsParseErr(r) == r.t = "err" /\ "parse" \in DOMAIN r

(* Result of a command on one database:
     db  : successor database           r   : reply
     dv  : deviation ids that shaped this result ({} for the ideal spec)
     rel : keys whose deadline was set relative to "now" (compared with a window)
     tol : keys whose deadline was given in whole seconds (compared at 1 s granularity) *)
Res(db, r) == [db |-> db, r |-> r, dv |-> {}, rel |-> {}, tol |-> {}]
ResD(db, r, id) == [db |-> db, r |-> r, dv |-> {id}, rel |-> {}, tol |-> {}]
Fail(db, r) == Res(db, r)     \* failed commands are inert (C06)

On(id) == id \in devs
\* "what the code does" reading; switches storage details that are not observable by themselves
\* (the emulator expires lazily: an object whose deadline is set into the past stays stored)
Real == devs # {}

\* order-independent choice of a sequence enumerating a finite set (for replies the
\* harness compares as multisets anyway)
SeqOfSet(S) == SetToSeq(S)

=============================================================================
