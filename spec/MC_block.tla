------------------------------- MODULE MC_block -----------------------------
(* C11 / C12: all programs of length 5 over: blocking pops of connections 1 and 2 (all five commands, one or
   two keys, timeout 0 or 1 s), pushes of 1 or 2 elements, competing consumers (LPOP, LMOVE, DEL, RENAME),
   CLIENT UNBLOCK (TIMEOUT / ERROR) and CLIENT KILL aimed at connection 1, the client closing its socket,
   time passing, and connection 1 held at one of the schedule points of the block/wake loop. *)
EXTENDS MCBlock
ka == B("a")
kb == B("b")
x == B("x")
y == B("y")
N(i) == Itoa(i)
C(name, args) == <<B(name)>> \o args
W(s) == B(s)
BS0 == InitServer({1, 2, 3})
BlockStates == {BS0, WithDb0(BS0, (kb :> VList(<<y>>, 0)))}

Blockers(c) == { C("BLPOP", <<ka, N(0)>>), C("BRPOP", <<ka, kb, N(0)>>), C("BLMOVE", <<ka, kb, W("LEFT"), W("RIGHT"), N(0)>>),
                 C("BRPOPLPUSH", <<ka, ka, N(0)>>), C("BLMPOP", <<N(0), N(1), ka, W("LEFT"), W("COUNT"), N(2)>>), C("BLPOP", <<ka, B("1")>>) }
Actor == { C("RPUSH", <<ka, x>>), C("RPUSH", <<kb, y>>), C("LPOP", <<ka>>), C("LMOVE", <<ka, kb, W("LEFT"), W("LEFT")>>),
           C("DEL", <<ka>>), C("RENAME", <<kb, ka>>), C("LLEN", <<ka>>),
           C("CLIENT", <<W("UNBLOCK"), W("@ID:1")>>), C("CLIENT", <<W("UNBLOCK"), W("@ID:1"), W("ERROR")>>), C("CLIENT", <<W("UNBLOCK"), W("@ID:2"), W("TIMEOUT")>>),
           C("CLIENT", <<W("KILL"), W("ID"), W("@ID:1")>>) }
Gates == {"before_register", "after_register", "before_capture", "captured", "after_wake"}
BlockVocab == UNION {{<<c, m>> : m \in Blockers(c)} : c \in {1, 2}} \cup {<<3, m>> : m \in Actor}
              \cup {<<1, <<W("@gate"), W(g)>> >> : g \in Gates} \cup {<<1, <<W("@release")>> >>, <<1, <<W("@close")>> >>, <<1, C("PING", <<>>)>>, <<0, <<1200>>>>}
\* shape of the programs: an optional gate for connection 1 first; connection 1 blocks (or tries to) in the first two steps;
\* at most one tick; release only after a gate
IsCtl(c, cmd, name) == c # 0 /\ cmd[1] = W(name)
BlockOk(h, st) ==
    LET pos == Len(h) + 1
        gated == \E j \in 1..Len(h) : IsCtl(h[j].c, h[j].cmd, "@gate")
        released == \E j \in 1..Len(h) : IsCtl(h[j].c, h[j].cmd, "@release")
    IN  /\ IsCtl(st[1], st[2], "@gate") => pos = 1
        /\ IsCtl(st[1], st[2], "@release") => (gated /\ ~released /\ pos >= 3)
        /\ (pos = 1 /\ ~IsCtl(st[1], st[2], "@gate")) => (st[1] = 1 /\ st[2] \in Blockers(1))
        /\ (pos = 2 /\ gated) => (st[1] = 1 /\ st[2] \in Blockers(1))
        /\ (st[1] = 0) => \A j \in 1..Len(h) : h[j].c # 0
        /\ (st[1] = 1 /\ st[2] \in Blockers(1) /\ pos > 2) => FALSE
        /\ (st = <<1, C("PING", <<>>)>>) => pos = BDepth
=============================================================================
