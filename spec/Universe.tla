------------------------------ MODULE Universe ------------------------------
(* Names shared by the bounded models: keys, elements, and one well-formed instance of
   every data command aimed at a key (the "every command of the emulator" axis of C06/C07/C10). *)
EXTENDS MCBase

ka == B("a")
kb == B("b")
x == B("x")
y == B("y")
f == B("f")
N(i) == Itoa(i)
C(name, args) == <<B(name)>> \o args
W(s) == B(s)

\* one well-formed instance of every data command aimed at key k (second key k2 where the command has one)
PerKey(k, k2) ==
    { C("GET", <<k>>), C("SET", <<k, y>>), C("SET", <<k, y, W("GET")>>), C("SETNX", <<k, y>>), C("setnx", <<k, y>>), C("GETSET", <<k, y>>), C("GETDEL", <<k>>), C("GETEX", <<k>>),
      C("APPEND", <<k, y>>), C("STRLEN", <<k>>), C("GETRANGE", <<k, N(0), N(-1)>>), C("SETRANGE", <<k, N(1), y>>),
      C("INCR", <<k>>), C("DECR", <<k>>), C("INCRBY", <<k, N(2)>>), C("DECRBY", <<k, N(2)>>), C("INCRBYFLOAT", <<k, B("0.5")>>),
      C("MGET", <<k, k2>>), C("MSET", <<k, y, k2, y>>), C("msetnx", <<k, y, k2, y>>), C("LCS", <<k, k2>>), C("SETEX", <<k, N(100), y>>), C("PSETEX", <<k, N(100000), y>>),
      C("LPUSH", <<k, y>>), C("RPUSH", <<k, y>>), C("LPUSHX", <<k, y>>), C("RPUSHX", <<k, y>>), C("LPOP", <<k>>), C("RPOP", <<k>>), C("LPOP", <<k, N(2)>>), C("RPOP", <<k, N(1)>>),
      C("LLEN", <<k>>), C("LINDEX", <<k, N(0)>>), C("LRANGE", <<k, N(0), N(-1)>>), C("LSET", <<k, N(0), y>>), C("LSET", <<k, N(7), y>>), C("LINSERT", <<k, W("BEFORE"), x, y>>),
      C("LREM", <<k, N(0), x>>), C("LREM", <<k, N(1), y>>), C("LTRIM", <<k, N(1), N(-1)>>), C("LTRIM", <<k, N(5), N(9)>>), C("LPOS", <<k, x>>),
      C("LMOVE", <<k, k2, W("LEFT"), W("RIGHT")>>), C("LMOVE", <<k2, k, W("LEFT"), W("RIGHT")>>), C("RPOPLPUSH", <<k, k2>>), C("LMPOP", <<N(2), k, k2, W("LEFT")>>),
      C("LMPOP", <<N(1), k, W("RIGHT"), W("COUNT"), N(5)>>),
      C("HSET", <<k, f, y>>), C("HMSET", <<k, f, y>>), C("HSETNX", <<k, y, y>>), C("HGET", <<k, f>>), C("HMGET", <<k, f>>), C("HGETALL", <<k>>), C("HKEYS", <<k>>), C("HVALS", <<k>>),
      C("HLEN", <<k>>), C("HEXISTS", <<k, f>>), C("HSTRLEN", <<k, f>>), C("HDEL", <<k, f>>), C("HDEL", <<k, f, x>>), C("HINCRBY", <<k, x, N(1)>>), C("HINCRBY", <<k, f, N(1)>>),
      C("HINCRBYFLOAT", <<k, x, B("0.5")>>), C("HRANDFIELD", <<k>>), C("HRANDFIELD", <<k, N(2)>>),
      C("SADD", <<k, y>>), C("SREM", <<k, x>>), C("SREM", <<k, x, y>>), C("SCARD", <<k>>), C("SISMEMBER", <<k, x>>), C("SMISMEMBER", <<k, x>>), C("SMEMBERS", <<k>>),
      C("SMOVE", <<k, k2, x>>), C("SMOVE", <<k2, k, x>>), C("SRANDMEMBER", <<k>>), C("SRANDMEMBER", <<k, N(-2)>>),
      C("SINTER", <<k, k2>>), C("SUNION", <<k, k2>>), C("SDIFF", <<k, k2>>), C("SINTERSTORE", <<k, k2>>), C("SUNIONSTORE", <<k, k2>>), C("SDIFFSTORE", <<k, k2, k>>),
      C("SINTERCARD", <<N(2), k, k2>>),
      C("DEL", <<k>>), C("UNLINK", <<k>>), C("EXISTS", <<k>>), C("TOUCH", <<k>>), C("TYPE", <<k>>), C("PERSIST", <<k>>), C("TTL", <<k>>), C("PTTL", <<k>>),
      C("EXPIRETIME", <<k>>), C("PEXPIRETIME", <<k>>), C("EXPIRE", <<k, N(100)>>), C("PEXPIRE", <<k, N(100000)>>), C("EXPIRE", <<k, N(0)>>), C("EXPIRE", <<k, N(-1)>>),
      C("RENAME", <<k, k2>>), C("RENAMENX", <<k, k2>>), C("COPY", <<k, k2>>), C("COPY", <<k, k2, W("REPLACE")>>), C("COPY", <<k, B("c")>>),
      C("SORT", <<k>>), C("SORT", <<k, W("ALPHA")>>), C("SORT", <<k, W("DESC")>>), C("SORT", <<k, W("LIMIT"), N(0), N(1), W("ALPHA"), W("DESC")>>),
      C("SORT", <<k, W("LIMIT"), N(1), N(-1)>>), C("SORT", <<k, W("LIMIT"), N(1)>>) }

=============================================================================
