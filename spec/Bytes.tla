------------------------------- MODULE Bytes -------------------------------
(***************************************************************************)
(* Byte strings, decimal (64-bit exact) arithmetic and Redis glob matching. *)
(*                                                                         *)
(* Every client-visible string of the emulator (command names, keywords,   *)
(* keys, values, fields, members, elements, numbers on the wire) is a      *)
(* sequence of bytes 0..255 in this specification, exactly what is written *)
(* to the socket.  TLC integers are 32 bit, therefore everything that has  *)
(* to be exact at the signed 64-bit boundary is computed on decimal digit  *)
(* sequences (records "Num").                                              *)
(***************************************************************************)
EXTENDS Integers, Sequences, FiniteSets, TLC, SequencesExt, Functions

CharCode ==
    (" " :> 32) @@ ("!" :> 33) @@ ("\"" :> 34) @@ ("#" :> 35) @@ ("$" :> 36) @@ ("%" :> 37) @@
    ("&" :> 38) @@ ("'" :> 39) @@ ("(" :> 40) @@ (")" :> 41) @@ ("*" :> 42) @@ ("+" :> 43) @@
    ("," :> 44) @@ ("-" :> 45) @@ ("." :> 46) @@ ("/" :> 47) @@ ("0" :> 48) @@ ("1" :> 49) @@
    ("2" :> 50) @@ ("3" :> 51) @@ ("4" :> 52) @@ ("5" :> 53) @@ ("6" :> 54) @@ ("7" :> 55) @@
    ("8" :> 56) @@ ("9" :> 57) @@ (":" :> 58) @@ (";" :> 59) @@ ("<" :> 60) @@ ("=" :> 61) @@
    (">" :> 62) @@ ("?" :> 63) @@ ("@" :> 64) @@ ("A" :> 65) @@ ("B" :> 66) @@ ("C" :> 67) @@
    ("D" :> 68) @@ ("E" :> 69) @@ ("F" :> 70) @@ ("G" :> 71) @@ ("H" :> 72) @@ ("I" :> 73) @@
    ("J" :> 74) @@ ("K" :> 75) @@ ("L" :> 76) @@ ("M" :> 77) @@ ("N" :> 78) @@ ("O" :> 79) @@
    ("P" :> 80) @@ ("Q" :> 81) @@ ("R" :> 82) @@ ("S" :> 83) @@ ("T" :> 84) @@ ("U" :> 85) @@
    ("V" :> 86) @@ ("W" :> 87) @@ ("X" :> 88) @@ ("Y" :> 89) @@ ("Z" :> 90) @@ ("[" :> 91) @@
    ("\\" :> 92) @@ ("]" :> 93) @@ ("^" :> 94) @@ ("_" :> 95) @@ ("`" :> 96) @@ ("a" :> 97) @@
    ("b" :> 98) @@ ("c" :> 99) @@ ("d" :> 100) @@ ("e" :> 101) @@ ("f" :> 102) @@ ("g" :> 103) @@
    ("h" :> 104) @@ ("i" :> 105) @@ ("j" :> 106) @@ ("k" :> 107) @@ ("l" :> 108) @@ ("m" :> 109) @@
    ("n" :> 110) @@ ("o" :> 111) @@ ("p" :> 112) @@ ("q" :> 113) @@ ("r" :> 114) @@ ("s" :> 115) @@
    ("t" :> 116) @@ ("u" :> 117) @@ ("v" :> 118) @@ ("w" :> 119) @@ ("x" :> 120) @@ ("y" :> 121) @@
    ("z" :> 122) @@ ("{" :> 123) @@ ("|" :> 124) @@ ("}" :> 125) @@ ("~" :> 126)

\* B("abc") = <<97,98,99>> : the bytes of a printable-ASCII literal
B(s) == [i \in 1..Len(s) |-> CharCode[SubSeq(s, i, i)]]

UpB(b) == IF b >= 97 /\ b <= 122 THEN b - 32 ELSE b
Upper(bs) == [i \in 1..Len(bs) |-> UpB(bs[i])]
\* case-insensitive comparison of a wire argument with a keyword literal
Is(bs, lit) == Upper(bs) = B(lit)

IsDigit(b) == b >= 48 /\ b <= 57
Rev(s) == [i \in 1..Len(s) |-> s[Len(s) + 1 - i]]

Min2(a, b) == IF a < b THEN a ELSE b
Max2(a, b) == IF a > b THEN a ELSE b

-----------------------------------------------------------------------------
(* Exact integers: [neg |-> BOOLEAN, mag |-> digits, least significant first,
   no most-significant zero].  Zero is [neg |-> FALSE, mag |-> <<>>].       *)

NumZero == [neg |-> FALSE, mag |-> <<>>]

RECURSIVE StripMS(_)
StripMS(m) == IF m # <<>> /\ m[Len(m)] = 0 THEN StripMS(SubSeq(m, 1, Len(m) - 1)) ELSE m

MkNum(neg, mag) == LET m == StripMS(mag) IN [neg |-> (neg /\ m # <<>>), mag |-> m]

\* -1, 0, 1 : compare magnitudes
RECURSIVE MagCmpAt(_, _, _)
MagCmpAt(a, b, i) == IF i = 0 THEN 0
                     ELSE IF a[i] < b[i] THEN -1
                     ELSE IF a[i] > b[i] THEN 1
                     ELSE MagCmpAt(a, b, i - 1)
MagCmp(a, b) == IF Len(a) < Len(b) THEN -1
                ELSE IF Len(a) > Len(b) THEN 1
                ELSE MagCmpAt(a, b, Len(a))

RECURSIVE MagAdd(_, _, _)
MagAdd(a, b, c) ==
    IF a = <<>> /\ b = <<>> THEN (IF c = 0 THEN <<>> ELSE <<c>>)
    ELSE LET x == IF a = <<>> THEN 0 ELSE Head(a)
             y == IF b = <<>> THEN 0 ELSE Head(b)
             s == x + y + c
         IN  <<s % 10>> \o MagAdd(IF a = <<>> THEN <<>> ELSE Tail(a),
                                  IF b = <<>> THEN <<>> ELSE Tail(b), s \div 10)

\* a - b for magnitudes with a >= b
RECURSIVE MagSub(_, _, _)
MagSub(a, b, brw) ==
    IF a = <<>> THEN <<>>
    ELSE LET y == IF b = <<>> THEN 0 ELSE Head(b)
             d == Head(a) - y - brw
         IN  IF d < 0 THEN <<d + 10>> \o MagSub(Tail(a), IF b = <<>> THEN <<>> ELSE Tail(b), 1)
                      ELSE <<d>> \o MagSub(Tail(a), IF b = <<>> THEN <<>> ELSE Tail(b), 0)

NumNeg(x) == MkNum(~x.neg, x.mag)

NumAdd(x, y) ==
    IF x.neg = y.neg THEN MkNum(x.neg, MagAdd(x.mag, y.mag, 0))
    ELSE LET c == MagCmp(x.mag, y.mag)
         IN  IF c = 0 THEN NumZero
             ELSE IF c > 0 THEN MkNum(x.neg, MagSub(x.mag, y.mag, 0))
             ELSE MkNum(y.neg, MagSub(y.mag, x.mag, 0))

NumSub(x, y) == NumAdd(x, NumNeg(y))

\* -1, 0, 1
NumCmp(x, y) ==
    IF x.neg /\ ~y.neg THEN -1
    ELSE IF ~x.neg /\ y.neg THEN 1
    ELSE IF ~x.neg THEN MagCmp(x.mag, y.mag)
    ELSE MagCmp(y.mag, x.mag)

DigitsLSF(s) == [i \in 1..Len(s) |-> CharCode[SubSeq(s, Len(s) + 1 - i, Len(s) + 1 - i)] - 48]

Mag63 == DigitsLSF("9223372036854775807")   \* 2^63 - 1
Mag63p == DigitsLSF("9223372036854775808")  \* 2^63
Mag64 == DigitsLSF("18446744073709551615")  \* 2^64 - 1
NumMaxI64 == [neg |-> FALSE, mag |-> Mag63]
NumMinI64 == [neg |-> TRUE, mag |-> Mag63p]

InI64(x) == IF x.neg THEN MagCmp(x.mag, Mag63p) <= 0 ELSE MagCmp(x.mag, Mag63) <= 0

\* small TLC integer <-> Num   (|n| < 10^9 is always safe)
RECURSIVE NatMag(_)
NatMag(n) == IF n = 0 THEN <<>> ELSE <<n % 10>> \o NatMag(n \div 10)
IntToNum(n) == IF n < 0 THEN MkNum(TRUE, NatMag(-n)) ELSE MkNum(FALSE, NatMag(n))

RECURSIVE MagNat(_)
MagNat(m) == IF m = <<>> THEN 0 ELSE Head(m) + 10 * MagNat(Tail(m))
IsSmall(x) == Len(x.mag) <= 9
\* value of a Num clamped into (-10^9, 10^9): exact when IsSmall
Big == 1000000000
NumToInt(x) == IF IsSmall(x) THEN (IF x.neg THEN -MagNat(x.mag) ELSE MagNat(x.mag))
               ELSE (IF x.neg THEN -Big ELSE Big)

NumToBytes(x) ==
    LET ds == IF x.mag = <<>> THEN <<48>> ELSE [i \in 1..Len(x.mag) |-> 48 + x.mag[Len(x.mag) + 1 - i]]
    IN  IF x.neg THEN <<45>> \o ds ELSE ds

Itoa(n) == NumToBytes(IntToNum(n))

(* Redis string2ll: optional '-', decimal digits, no leading zero unless the
   number is "0", "-0" rejected, no '+', no blanks, within signed 64 bit.    *)
ParseI64(bs) ==
    LET neg == bs # <<>> /\ bs[1] = 45
        ds  == IF neg THEN Tail(bs) ELSE bs
        syntactic == /\ ds # <<>>
                     /\ \A i \in 1..Len(ds) : IsDigit(ds[i])
                     /\ (ds[1] = 48 => (Len(ds) = 1 /\ ~neg))
                     /\ Len(ds) <= 19
        num == MkNum(neg, [i \in 1..Len(ds) |-> ds[Len(ds) + 1 - i] - 48])
    IN  IF syntactic /\ InI64(num) THEN [ok |-> TRUE, num |-> num]
        ELSE [ok |-> FALSE, num |-> NumZero]

\* small-int view of an argument: ok, and v clamped to +-10^9 (indexes, counts)
ArgInt(bs) == LET p == ParseI64(bs) IN [ok |-> p.ok, v |-> NumToInt(p.num), num |-> p.num]

-----------------------------------------------------------------------------
(* Absolute timestamps in command arguments.  The model clock counts milliseconds
   from an arbitrary origin (now = 1000000 at the start of a case); a real server needs
   epoch values that are only known when a case is replayed.  A command vector therefore
   carries an absolute time as the symbolic argument "@T:<model ms>" (the harness sends
   the corresponding epoch seconds) or "@M:<model ms>" (epoch milliseconds).  A plain
   positive number is a real epoch value in the deep past (1970).                       *)
IsTimeMarker(bs) == Len(bs) >= 4 /\ bs[1] = 64 /\ (bs[2] = 84 \/ bs[2] = 77) /\ bs[3] = 58
DeepPast == 1
AbsTimeArg(bs) ==
    IF IsTimeMarker(bs)
    THEN LET p == ParseI64(SubSeq(bs, 4, Len(bs))) IN [ok |-> p.ok /\ IsSmall(p.num), pos |-> TRUE, v |-> NumToInt(p.num)]
    ELSE LET p == ParseI64(bs) IN [ok |-> p.ok, pos |-> p.ok /\ ~p.num.neg /\ p.num.mag # <<>>, v |-> DeepPast]
TMark(ms) == <<64, 84, 58>> \o Itoa(ms)
MMark(ms) == <<64, 77, 58>> \o Itoa(ms)

-----------------------------------------------------------------------------
(* Redis glob (util.c stringmatchlen): * ? [abc] [a-c] [^x] \x            *)

RECURSIVE GlobM(_, _)
\* does class starting after '[' at pattern p (p[1] is first class char) match byte c?
\* returns [m |-> matched, rest |-> pattern after the closing bracket]
RECURSIVE ClassScan(_, _, _)
ClassScan(p, c, m) ==
    IF p = <<>> THEN [m |-> m, rest |-> <<>>]
    ELSE IF p[1] = 93 THEN [m |-> m, rest |-> Tail(p)]                        \* ']'
    ELSE IF p[1] = 92 /\ Len(p) >= 2                                           \* '\x'
         THEN ClassScan(SubSeq(p, 3, Len(p)), c, m \/ p[2] = c)
    ELSE IF Len(p) >= 3 /\ p[2] = 45 /\ p[3] # 93                               \* 'a-c'
         THEN LET lo == Min2(p[1], p[3])
                  hi == Max2(p[1], p[3])
              IN  ClassScan(SubSeq(p, 4, Len(p)), c, m \/ (c >= lo /\ c <= hi))
    ELSE ClassScan(Tail(p), c, m \/ p[1] = c)

GlobM(p, s) ==
    IF p = <<>> THEN s = <<>>
    ELSE IF p[1] = 42 THEN                                                     \* '*'
         \E i \in 0..Len(s) : GlobM(Tail(p), SubSeq(s, i + 1, Len(s)))
    ELSE IF s = <<>> THEN FALSE
    ELSE IF p[1] = 63 THEN GlobM(Tail(p), Tail(s))                             \* '?'
    ELSE IF p[1] = 91 THEN                                                     \* '['
         LET neg == Len(p) >= 2 /\ p[2] = 94
             body == IF neg THEN SubSeq(p, 3, Len(p)) ELSE Tail(p)
             cs == ClassScan(body, s[1], FALSE)
         IN  (cs.m # neg) /\ GlobM(cs.rest, Tail(s))
    ELSE IF p[1] = 92 /\ Len(p) >= 2 THEN p[2] = s[1] /\ GlobM(SubSeq(p, 3, Len(p)), Tail(s))
    ELSE p[1] = s[1] /\ GlobM(Tail(p), Tail(s))

Glob(pattern, str) == GlobM(pattern, str)

-----------------------------------------------------------------------------
(* Dyadic decimals with at most two fractional digits (multiples of 0.25), as exact
   quarters: the subset of floats on which float64, long double and exact arithmetic
   agree and whose shortest decimal rendering is unambiguous.  Magnitudes < 10^8.   *)
ParseQ(bs) ==
    LET neg == bs # <<>> /\ bs[1] = 45
        u == IF neg THEN Tail(bs) ELSE bs
        dot == IF \E i \in 1..Len(u) : u[i] = 46 THEN CHOOSE i \in 1..Len(u) : u[i] = 46 ELSE 0
        ip == IF dot = 0 THEN u ELSE SubSeq(u, 1, dot - 1)
        fp == IF dot = 0 THEN <<>> ELSE SubSeq(u, dot + 1, Len(u))
        digits(x) == \A i \in 1..Len(x) : IsDigit(x[i])
        ipv == MagNat([i \in 1..Len(ip) |-> ip[Len(ip) + 1 - i] - 48])
        fq == CASE fp = <<>> -> 0
                [] fp = <<48>> \/ fp = <<48, 48>> -> 0
                [] fp = <<50, 53>> -> 1
                [] fp = <<53>> \/ fp = <<53, 48>> -> 2
                [] fp = <<55, 53>> -> 3
                [] OTHER -> -1
        ok == ip # <<>> /\ Len(ip) <= 8 /\ digits(ip) /\ (dot = 0 \/ fp # <<>>) /\ fq >= 0
    IN  IF ok THEN [ok |-> TRUE, q |-> (IF neg THEN -1 ELSE 1) * (4 * ipv + fq)] ELSE [ok |-> FALSE, q |-> 0]

FormatQ(q) ==
    LET a == IF q < 0 THEN -q ELSE q
        frac == CASE a % 4 = 0 -> <<>> [] a % 4 = 1 -> <<46, 50, 53>> [] a % 4 = 2 -> <<46, 53>> [] OTHER -> <<46, 55, 53>>
    IN  (IF q < 0 THEN <<45>> ELSE <<>>) \o Itoa(a \div 4) \o frac

(* The emulator's glob (redisGlob.go): a bracket class is the literal set of its characters
   (backslash escapes the next one) - no '^' negation, no 'a-z' ranges.                  *)
RECURSIVE EmuClass(_, _)
EmuClass(p, acc) ==       \* p starts after '['; returns [set, rest]
    IF p = <<>> THEN [set |-> acc, rest |-> <<>>]
    ELSE IF p[1] = 93 THEN [set |-> acc, rest |-> Tail(p)]
    ELSE IF p[1] = 92 /\ Len(p) >= 2 THEN EmuClass(SubSeq(p, 3, Len(p)), acc \cup {p[2]})
    ELSE EmuClass(Tail(p), acc \cup {p[1]})

RECURSIVE EmuGlob(_, _)
EmuGlob(p, s) ==
    IF s = <<>> THEN \A i \in 1..Len(p) : p[i] = 42
    ELSE IF p = <<>> THEN FALSE
    ELSE IF p[1] = 63 THEN EmuGlob(Tail(p), Tail(s))
    ELSE IF p[1] = 42 THEN Len(p) = 1 \/ \E j \in 0..(Len(s) - 1) : EmuGlob(Tail(p), SubSeq(s, j + 1, Len(s)))
    ELSE IF p[1] = 91 THEN LET c == EmuClass(Tail(p), {}) IN s[1] \in c.set /\ EmuGlob(c.rest, Tail(s))
    ELSE IF p[1] = 92 /\ Len(p) >= 2 THEN p[2] = s[1] /\ EmuGlob(SubSeq(p, 3, Len(p)), Tail(s))
    ELSE p[1] = s[1] /\ EmuGlob(Tail(p), Tail(s))

\* lexicographic byte order (for SORT ALPHA and canonical listings)
RECURSIVE BytesLess(_, _)
BytesLess(a, b) == IF b = <<>> THEN FALSE
                   ELSE IF a = <<>> THEN TRUE
                   ELSE IF a[1] # b[1] THEN a[1] < b[1]
                   ELSE BytesLess(Tail(a), Tail(b))

=============================================================================
