------------------------------ MODULE MC_watch2 -----------------------------
(* C10, sequences of modifications: WATCH a, TWO steps of the other connection, MULTI PING EXEC.  The pairs are
   round trips that bring the watched key back to where it was (renamed away and back, deleted and re-created,
   overwritten and restored, pushed and popped, copied over itself) and commands whose sub-operations partly
   fail (BITFIELD with an applied and a refused write).  EXEC must reply nil whenever the key was modified in
   between, whatever it looks like at EXEC time. *)
EXTENDS MCTree
kt == B("t")
A4 == B("AAAA")
W2States == {WithDb0(InitServer({1, 2}), (ka :> va)) : va \in {VStr(A4, 0), VList(<<x, y>>, 0), VList(<<x>>, 0), VHash((f :> x), 0), VSet({x}, 0)}}
Noop2 == C("PING", <<>>)
Pairs == { <<C("RENAME", <<ka, kt>>), C("RENAME", <<kt, ka>>)>>,
           <<C("DEL", <<ka>>), C("SET", <<ka, A4>>)>>,
           <<C("SET", <<ka, y>>), C("SET", <<ka, A4>>)>>,
           <<C("COPY", <<ka, kt>>), C("RENAME", <<kt, ka>>)>>,
           <<C("LPUSH", <<ka, B("z")>>), C("LPOP", <<ka>>)>>,
           <<C("RPOPLPUSH", <<ka, ka>>), C("RPOPLPUSH", <<ka, ka>>)>>,
           <<C("HSET", <<ka, f, y>>), C("HSET", <<ka, f, x>>)>>,
           <<C("SADD", <<ka, y>>), C("SREM", <<ka, y>>)>>,
           <<C("APPEND", <<ka, B("")>>), Noop2>>,
           <<C("BITFIELD", <<ka, W("SET"), W("u8"), N(0), N(66), W("OVERFLOW"), W("FAIL"), W("INCRBY"), W("u8"), N(8), N(255)>>), Noop2>>,
           <<C("BITFIELD", <<ka, W("OVERFLOW"), W("FAIL"), W("INCRBY"), W("u8"), N(8), N(255)>>), Noop2>>,
           <<C("BITFIELD", <<ka, W("OVERFLOW"), W("FAIL"), W("INCRBY"), W("u8"), N(8), N(255), W("SET"), W("u8"), N(0), N(66)>>), Noop2>>,
           <<C("SETRANGE", <<ka, N(0), B("A")>>), Noop2>>,
           <<C("GETEX", <<ka>>), C("GETDEL", <<kt>>)>> }
W2Vocab == {<<1, C("WATCH", <<ka>>)>>, <<1, C("MULTI", <<>>)>>, <<1, C("PING", <<>>)>>, <<1, C("EXEC", <<>>)>>}
           \cup UNION {{<<2, p[1]>>, <<2, p[2]>>} : p \in Pairs}
W2Ok(h, st) ==
    LET pos == Len(h) + 1
    IN  CASE pos = 1 -> st = <<1, C("WATCH", <<ka>>)>>
          [] pos = 2 -> st[1] = 2 /\ \E p \in Pairs : p[1] = st[2]
          [] pos = 3 -> st[1] = 2 /\ \E p \in Pairs : p[1] = h[2].cmd /\ p[2] = st[2]
          [] pos = 4 -> st = <<1, C("MULTI", <<>>)>>
          [] pos = 5 -> st = <<1, C("PING", <<>>)>>
          [] pos = 6 -> st = <<1, C("EXEC", <<>>)>>
          [] OTHER -> FALSE
=============================================================================
