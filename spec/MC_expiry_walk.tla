-------------------- MODULE MC_expiry_walk --------------------
(* Random multi-step walks of the expiry family: its command universe issued by one connection from its
   bounded initial states (tlc -simulate); see MCWalk. *)
EXTENDS MC_expiry, MCWalk
WVocab == VocabOf(ExpCmds)
WOk(s, st) == ExpRelevant(s, st[2])
=============================================================================
