----------------------------- MODULE MC_persist -----------------------------
(* C19: every mutator of the emulator as the LAST change before a clean shutdown, on all four types
   (in place and replacing, removing the last element, expiry changes, flushes), databases 0 and 1. *)
EXTENDS Persist
ValU == {VStr(x, 0), VStr(N(5), 1500000), VList(<<x, y>>, 0), VList(<<x>>, 0), VHash((f :> x) @@ (x :> N(1)), 0), VHash((f :> N(2)), 0),
         VSet({x, y}, 0), VSet({x}, 0)}
Dbs0 == {(ka :> va) : va \in ValU} \cup {(ka :> va) @@ (kb :> VList(<<y>>, 0)) : va \in {VStr(x, 0), VList(<<x, y>>, 0), VSet({x, y}, 0)}} \cup {EmptyDb}
EmptyStrState == WithDbs(InitServer({1}), (0 :> (ka :> VStr(<<>>, 0))))
\* a key whose deadline has passed but whose object is still stored when the snapshot is written; databases in use
\* that are not 0..n-1
ExpiredState == WithDbs(InitServer({1}), (0 :> ((ka :> VStr(x, 0)) @@ (kb :> VStr(y, DeepPast)))))
SparseState == WithDbs(InitServer({1}), (5 :> (ka :> VList(<<x, y>>, 0))) @@ (9 :> (kb :> VStr(y, 0))))
Special == {EmptyStrState, ExpiredState, SparseState}
PsStates == {WithDbs(InitServer({1}), (0 :> d) @@ (1 :> (kb :> VStr(y, 0)))) : d \in Dbs0} \cup Special
\* an empty string value does not survive a save / load cycle readable (KF-C19-04): the state holding one is only
\* used to show that; commands whose deviated result is an empty string are left out for the same reason
PsRelevant(s, cmd) == IF s = EmptyStrState THEN cmd = C("GET", <<ka>>)
                      ELSE IF s \in {ExpiredState, SparseState} THEN cmd \in {C("GET", <<ka>>), C("SET", <<ka, y>>), C("DEL", <<ka>>), C("RPUSH", <<kb, x>>)}
                      ELSE ~(CmdName(cmd) = "BITOP" /\ ka \notin DOMAIN s.dbs[0])
PsCmds == PerKey(ka, kb) \cup {C("FLUSHDB", <<>>), C("FLUSHALL", <<>>), C("HINCRBYFLOAT", <<ka, f, B("0.5")>>), C("SMOVE", <<ka, kb, y>>),
                                 C("PEXPIREAT", <<ka, MMark(1600000)>>), C("EXPIREAT", <<ka, TMark(1600000)>>), C("GETEX", <<ka, W("PERSIST")>>),
                                 C("GETEX", <<ka, W("EX"), N(100)>>), C("LSET", <<ka, N(-1), B("z")>>), C("SETRANGE", <<ka, N(0), y>>),
                                 C("SETBIT", <<ka, N(7), N(1)>>), C("BITOP", <<W("NOT"), ka, ka>>), C("LTRIM", <<ka, N(0), N(0)>>)}
=============================================================================
