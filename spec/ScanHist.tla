------------------------------ MODULE ScanHist ------------------------------
(***************************************************************************)
(* C17: SCAN / HSCAN / SSCAN as a history property.                         *)
(*                                                                         *)
(* Generator (tlc -simulate): histories over a collection of up to N        *)
(* elements: Add(e), Del(e), and Step(count) - one SCAN call continuing the *)
(* current full iteration (the cursor is whatever the server returned).     *)
(* The generator keeps bursts of additions (growth of the table) and of     *)
(* removals (shrinking) between the calls of an iteration.                  *)
(*                                                                         *)
(* Judge (ScanOk): for every completed full iteration of a recorded         *)
(* history                                                                  *)
(*      Always \subseteq Returned \subseteq Ever                            *)
(* where Always = elements present from its first call to its last,         *)
(* Ever = elements present at some moment in between, both restricted to    *)
(* the MATCH pattern / TYPE filter, and every iteration that was started    *)
(* ends (cursor 0) within the call budget once the collection is stable.    *)
(***************************************************************************)
EXTENDS Integers, Sequences, FiniteSets, TLC, Json, SequencesExt

CONSTANTS N, Depth, Counts
VARIABLES present, prog, mode
svars == <<present, prog, mode>>

Elems == 1..N
SInit == present = {} /\ prog = <<>> /\ mode = "grow"
\* phases: grow (mostly additions), scan-while-changing, shrink (mostly removals): chosen at random, biased
Kinds(m) == CASE m = "grow" -> <<"add", "add", "add", "add", "step", "mode">>
              [] m = "shrink" -> <<"del", "del", "del", "del", "step", "mode">>
              [] OTHER -> <<"step", "step", "step", "add", "del", "mode">>
SNext ==
    /\ Len(prog) < Depth
    /\ \E kd \in {Kinds(mode)[RandomElement(1..6)]} :
       \E st \in {CASE kd = "add" /\ present # Elems -> [op |-> "add", e |-> RandomElement(Elems \ present)]
                     [] kd = "del" /\ present # {} -> [op |-> "del", e |-> RandomElement(present)]
                     [] kd = "mode" -> [op |-> "mode", m |-> RandomElement({"grow", "shrink", "scan", "scan"})]
                     [] OTHER -> [op |-> "step", count |-> RandomElement(Counts)]} :
          /\ prog' = IF st.op = "mode" THEN prog ELSE Append(prog, st)
          /\ present' = CASE st.op = "add" -> present \cup {st.e}
                          [] st.op = "del" -> present \ {st.e}
                          [] OTHER -> present
          /\ mode' = IF st.op = "mode" THEN st.m ELSE mode
SSpec == SInit /\ [][SNext]_svars
SPrint == Len(prog) < Depth \/ PrintT(ToJson([scanprog |-> prog]))

\* Exhaustive generator for small collections (tlc in model-checking mode): EVERY interleaving of additions,
\* removals and single-bucket SCAN calls of length Depth over N elements - including the ones that empty the
\* collection in the middle of an iteration.  The first and the last operation are SCAN calls.
ENext ==
    /\ Len(prog) < Depth
    /\ \E st \in {[op |-> "add", e |-> e] : e \in Elems \ present} \cup {[op |-> "del", e |-> e] : e \in present}
                   \cup {[op |-> "step", count |-> c] : c \in Counts} :
          /\ (Len(prog) = Depth - 1 => st.op = "step")
          /\ prog' = Append(prog, st)
          /\ present' = CASE st.op = "add" -> present \cup {st.e}
                          [] st.op = "del" -> present \ {st.e}
                          [] OTHER -> present
    /\ UNCHANGED mode
EInit == \E p \in {Elems, {}} : present = p /\ prog = <<>> /\ mode = (IF p = {} THEN "empty" ELSE "full")
ESpec == EInit /\ [][ENext]_svars
EEmit == (Len(prog') = Depth /\ \E j \in 1..(Depth - 1) : prog'[j].op = "step") => PrintT(ToJson([scanprog |-> prog', init |-> mode]))

-----------------------------------------------------------------------------
(* Judge of recorded histories.  A history: [ev |-> <<events>>, budget |-> n]; events
   [op |-> "add"/"del", e], [op |-> "call", cin, cout, items |-> <<e...>>, match |-> set of e the filter admits] *)
CONSTANT HistFile
HS == ndJsonDeserialize(HistFile)
SeqSet(s) == {s[j] : j \in 1..Len(s)}

\* fold over the events: st = [present, iterating, always, ever, returned, calls, bad]
StepEv(st, ev) ==
    CASE ev.op = "add" -> [st EXCEPT !.present = @ \cup {ev.e}, !.ever = IF st.iterating THEN @ \cup {ev.e} ELSE @]
      [] ev.op = "del" -> [st EXCEPT !.present = @ \ {ev.e}, !.always = @ \ {ev.e}]
      [] ev.op = "call" ->
           LET start == ~st.iterating
               always0 == IF start THEN st.present ELSE st.always
               ever0 == IF start THEN st.present ELSE st.ever
               ret == (IF start THEN {} ELSE st.returned) \cup SeqSet(ev.items)
               fin == ev.cout = 0
               m == SeqSet(ev.match)
               ok == (always0 \cap m) \subseteq ret /\ ret \subseteq (ever0 \cap m)
           IN  [st EXCEPT !.iterating = ~fin, !.always = always0, !.ever = ever0, !.returned = ret,
                          !.calls = IF start THEN 1 ELSE @ + 1,
                          !.bad = IF fin /\ ~ok THEN @ \cup {[missing |-> (always0 \cap m) \ ret, invented |-> ret \ (ever0 \cap m)]}
                                  ELSE IF SeqSet(ev.items) \ (ever0 \cap m) # {} THEN @ \cup {[missing |-> {}, invented |-> SeqSet(ev.items) \ (ever0 \cap m)]}
                                  ELSE @,
                          !.done = IF fin THEN @ + 1 ELSE @]
      [] OTHER -> st
Judge(hh) == FoldLeft(StepEv, [present |-> {}, iterating |-> FALSE, always |-> {}, ever |-> {}, returned |-> {}, calls |-> 0, bad |-> {}, done |-> 0], hh.ev)
ScanOk(hh) == Judge(hh).bad = {}
Verdicts == [n \in 1..Len(HS) |-> LET jd == Judge(HS[n]) IN [ok |-> jd.bad = {}, iterations |-> jd.done, bad |-> jd.bad]]
=============================================================================
