-------------------- MODULE MC_sets_walk --------------------
(* Random multi-step walks of the sets family: its command universe issued by one connection from its
   bounded initial states (tlc -simulate); see MCWalk. *)
EXTENDS MC_sets, MCWalk
WVocab == VocabOf(SetCmds)
WOk(s, st) == AllRelevant(s, st[2])
=============================================================================
