-------------------- MODULE MC_strings_walk --------------------
(* Random multi-step walks of the strings family: its command universe issued by one connection from its
   bounded initial states (tlc -simulate); see MCWalk. *)
EXTENDS MC_strings, MCWalk
WVocab == VocabOf(StrCmds)
WOk(s, st) == StrRelevant(s, st[2])
=============================================================================
