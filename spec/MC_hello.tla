------------------------------ MODULE MC_hello ------------------------------
(* C15: HELLO switches the protocol of one connection only.  All programs of length 3 of two connections
   over {HELLO, HELLO 2, HELLO 3, HELLO 4, HELLO x, HGETALL (map vs flat array), GET}; the replay engine
   checks the wire types of every reply against the protocol the model says is in force, and finally the
   protocol CLIENT INFO reports for each connection. *)
EXTENDS MCTree
kh == B("h")
HelloStates == {WithDb0(InitServer({1, 2}), (kh :> VHash((f :> x), 0)) @@ (ka :> VStr(x, 0)))}
HelloCmds == { C("HELLO", <<>>), C("HELLO", <<N(2)>>), C("HELLO", <<N(3)>>), C("HELLO", <<N(4)>>), C("HELLO", <<x>>), C("HELLO", <<N(0)>>),
               C("HGETALL", <<kh>>), C("GET", <<ka>>), C("GET", <<kb>>) }
HelloVocab == {<<c, m>> : c \in {1, 2}, m \in HelloCmds}
=============================================================================
