SPECIFICATION PSpec
CONSTANTS
  OpenDev = {}
  States <- ProgStates
  CmdU <- NoVocab
  Relevant <- PRelevant
  Fam = "prog"
  Vocab <- NoVocab
  Depth = 0
  TreeOk <- AnyProg
  WalkOk <- AnyState
  ProgFile = "progs.ndjson"
INVARIANT PPrint
INVARIANT TWellFormed
CHECK_DEADLOCK FALSE
