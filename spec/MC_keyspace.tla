---------------------------- MODULE MC_keyspace -----------------------------
(* C06: keyspace discipline.  Every command of the emulator x every type of target key
   (missing, string, list, hash, set; aggregates with one and with two elements so that
   "the last element is removed" is reached) x every way of failing; the generic key
   commands (DEL ... SORT) with glob patterns. *)
EXTENDS Universe

Keys == {ka, kb}
ValU == {VStr(x, 0), VStr(N(5), 0),
         VList(<<x>>, 0), VList(<<x, y>>, 0), VList(<<N(3), N(1), N(2)>>, 0),
         VHash((f :> x), 0), VHash((f :> x) @@ (x :> N(1)), 0),
         VSet({x}, 0), VSet({x, y}, 0)}
Dbs0 == UNION {[K -> ValU] : K \in SUBSET Keys}
KsStates == {WithDb0(InitServer({1}), d) : d \in Dbs0}


Pats == {W("*"), W("a"), W("?"), W("??"), W("a*"), W("*a"), W("[ab]"), W("[^a]"), W("[a-b]"), W("[b-z]"), W("\\a"), W("\\*"), W("[a"), W(""), W("b*b"), W("*?")}

KsCmds ==
    UNION {
      PerKey(ka, kb), PerKey(kb, ka),
      {C("RENAME", <<ka, ka>>), C("RENAMENX", <<ka, ka>>), C("RENAME", <<ka, B("c")>>), C("RENAMENX", <<ka, B("c")>>), C("COPY", <<ka, ka>>), C("COPY", <<ka, ka, W("REPLACE")>>),
       C("DEL", <<ka, kb>>), C("DEL", <<ka, ka>>), C("UNLINK", <<ka, kb, B("c")>>), C("EXISTS", <<ka, kb, ka>>), C("TOUCH", <<ka, B("c")>>),
       C("RANDOMKEY", <<>>), C("DBSIZE", <<>>), C("DBSIZE", <<ka>>), C("RANDOMKEY", <<ka>>), C("PING", <<>>), C("ECHO", <<x>>),
       C("DEL", <<>>), C("EXISTS", <<>>), C("TYPE", <<>>), C("TYPE", <<ka, kb>>), C("RENAME", <<ka>>), C("COPY", <<ka>>), C("COPY", <<ka, kb, W("BOGUS")>>), C("KEYS", <<>>), C("KEYS", <<ka, kb>>),
       C("SORT", <<>>), C("NOSUCH", <<ka>>), C("FLUSHDB", <<>>), C("FLUSHALL", <<>>)},
      {C("KEYS", <<p>>) : p \in Pats}
    }
=============================================================================
