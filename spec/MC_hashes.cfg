SPECIFICATION Spec
CONSTANTS
  OpenDev = {}
  States <- HashStates
  CmdU <- HashCmds
  Relevant <- HashRelevant
  Fam = "hashes"
ACTION_CONSTRAINT Emit
VIEW View
INVARIANT WellFormed
PROPERTY FailedInert
CHECK_DEADLOCK FALSE
