SPECIFICATION TSpec
CONSTANTS
  OpenDev = {}
  States <- AliasStates
  Vocab <- AliasVocab
  TreeOk <- AliasOk
  Depth = 3
  CmdU = {}
  Relevant <- AllRelevant
  Fam = "alias"
ACTION_CONSTRAINT TEmit
INVARIANT TWellFormed
CHECK_DEADLOCK FALSE
