-------------------------------- MODULE Lists -------------------------------
(***************************************************************************)
(* List commands on sequences.  d is the live database, a the arguments     *)
(* after the command name (byte strings, as on the wire).                   *)
(***************************************************************************)
EXTENDS Store

ListOf(d, k) == IF Has(d, k) /\ d[k].ty = "list" THEN d[k].l ELSE <<>>
PutList(d, k, l) == IF l = <<>> THEN Del(d, k) ELSE Put(d, k, VList(l, ExpOf(d, k)))

Take(l, n) == SubSeq(l, 1, Min2(n, Len(l)))
Drop(l, n) == SubSeq(l, Min2(n, Len(l)) + 1, Len(l))
TakeR(l, n) == Rev(SubSeq(l, Len(l) - Min2(n, Len(l)) + 1, Len(l)))     \* n elements popped from the right, in pop order
DropR(l, n) == SubSeq(l, 1, Len(l) - Min2(n, Len(l)))

\* Redis index normalisation for ranges: returns <<start, stop>> 0-based inclusive, possibly empty (start > stop)
NormRange(n, s0, e0) ==
    LET s1 == IF s0 < 0 THEN Max2(n + s0, 0) ELSE s0
        e1 == IF e0 < 0 THEN n + e0 ELSE e0
        e2 == IF e1 >= n THEN n - 1 ELSE e1
    IN  <<s1, e2>>
RangeOf(l, s0, e0) ==
    LET r == NormRange(Len(l), s0, e0)
    IN  IF r[1] > r[2] \/ r[1] >= Len(l) THEN <<>> ELSE SubSeq(l, r[1] + 1, r[2] + 1)

Push(d, a, left, onlyIfExists) ==
    LET k == a[1]
        es == Tail(a)
        l == ListOf(d, k)
        l2 == IF left THEN Rev(es) \o l ELSE l \o es
    IN  IF Len(a) < 2 THEN Fail(d, EArg)
        ELSE IF WrongType(d, k, "list") THEN Fail(d, WT)
        ELSE IF onlyIfExists /\ ~Has(d, k) THEN Res(d, RInt(0))
        ELSE Res(PutList(d, k, l2), RInt(Len(l2)))

Pop(d, a, left) ==
    LET k == a[1]
        l == ListOf(d, k)
        c == IF Len(a) = 2 THEN ArgInt(a[2]) ELSE [ok |-> TRUE, v |-> 1]
        n == Min2(c.v, Len(l))
        taken == IF left THEN Take(l, n) ELSE TakeR(l, n)
        rest == IF left THEN Drop(l, n) ELSE DropR(l, n)
    IN  IF Len(a) < 1 \/ Len(a) > 2 THEN Fail(d, EArg)
        ELSE IF ~c.ok \/ c.v < 0 THEN Fail(d, EArg)
        ELSE IF WrongType(d, k, "list") THEN Fail(d, WT)
        ELSE IF ~Has(d, k) THEN
             (IF Len(a) = 2 /\ c.v = 0 /\ On("D_POP_COUNT0_MISSING_EMPTY_ARRAY")
              THEN ResD(d, RArr(<<>>), "D_POP_COUNT0_MISSING_EMPTY_ARRAY")
              ELSE Res(d, RNil))
        ELSE IF Len(a) = 1 THEN Res(PutList(d, k, rest), RBulk(taken[1]))
        ELSE Res(PutList(d, k, rest), RBulks(taken))

LLen(d, a) ==
    IF Len(a) # 1 THEN Fail(d, EArg)
    ELSE IF WrongType(d, a[1], "list") THEN Fail(d, WT)
    ELSE Res(d, RInt(Len(ListOf(d, a[1]))))

LIndex(d, a) ==
    LET l == ListOf(d, a[1])
        i == ArgInt(a[2])
        p == IF i.v < 0 THEN Len(l) + i.v ELSE i.v
    IN  IF Len(a) # 2 \/ ~i.ok THEN Fail(d, EArg)
        ELSE IF WrongType(d, a[1], "list") THEN Fail(d, WT)
        ELSE IF p < 0 \/ p >= Len(l) THEN Res(d, RNil)
        ELSE Res(d, RBulk(l[p + 1]))

LRange(d, a) ==
    LET l == ListOf(d, a[1])
        s == ArgInt(a[2])
        e == ArgInt(a[3])
    IN  IF Len(a) # 3 \/ ~s.ok \/ ~e.ok THEN Fail(d, EArg)
        ELSE IF WrongType(d, a[1], "list") THEN Fail(d, WT)
        ELSE Res(d, RBulks(RangeOf(l, s.v, e.v)))

LSet(d, a) ==
    LET k == a[1]
        l == ListOf(d, k)
        i == ArgInt(a[2])
        p == IF i.v < 0 THEN Len(l) + i.v ELSE i.v
    IN  IF Len(a) # 3 \/ ~i.ok THEN Fail(d, EArg)
        ELSE IF WrongType(d, k, "list") THEN Fail(d, WT)
        ELSE IF ~Has(d, k) THEN Fail(d, RErr("ERR"))
        ELSE IF p < 0 \/ p >= Len(l) THEN Fail(d, RErr("ERR"))
        ELSE Res(PutList(d, k, [l EXCEPT ![p + 1] = a[3]]), ROk)

FirstIdx(l, x) == IF \E i \in 1..Len(l) : l[i] = x
                  THEN CHOOSE i \in 1..Len(l) : l[i] = x /\ \A j \in 1..(i - 1) : l[j] # x
                  ELSE 0

LInsert(d, a) ==
    LET k == a[1]
        l == ListOf(d, k)
        before == Is(a[2], "BEFORE")
        after == Is(a[2], "AFTER")
        i == FirstIdx(l, a[3])
        l2 == IF before THEN SubSeq(l, 1, i - 1) \o <<a[4]>> \o SubSeq(l, i, Len(l))
              ELSE SubSeq(l, 1, i) \o <<a[4]>> \o SubSeq(l, i + 1, Len(l))
    IN  IF Len(a) # 4 \/ ~(before \/ after) THEN Fail(d, EArg)
        ELSE IF WrongType(d, k, "list") THEN Fail(d, WT)
        ELSE IF ~Has(d, k) THEN Res(d, RInt(0))
        ELSE IF i = 0 THEN Res(d, RInt(-1))
        ELSE Res(PutList(d, k, l2), RInt(Len(l2)))

\* remove the first n occurrences of x (n = 0: all) scanning from the head
RECURSIVE RemFirst(_, _, _)
RemFirst(l, x, n) == IF l = <<>> \/ n = 0 THEN l
                     ELSE IF Head(l) = x THEN RemFirst(Tail(l), x, n - 1)
                     ELSE <<Head(l)>> \o RemFirst(Tail(l), x, n)
CountOf(l, x) == Cardinality({i \in 1..Len(l) : l[i] = x})

LRem(d, a) ==
    LET k == a[1]
        l == ListOf(d, k)
        c == ArgInt(a[2])
        x == a[3]
        tot == CountOf(l, x)
        n == IF c.v = 0 THEN tot ELSE Min2(tot, IF c.v < 0 THEN -c.v ELSE c.v)
        l2 == IF c.v >= 0 THEN RemFirst(l, x, n) ELSE Rev(RemFirst(Rev(l), x, n))
    IN  IF Len(a) # 3 \/ ~c.ok THEN Fail(d, EArg)
        ELSE IF WrongType(d, k, "list") THEN Fail(d, WT)
        ELSE Res(PutList(d, k, l2), RInt(n))

LTrim(d, a) ==
    LET k == a[1]
        l == ListOf(d, k)
        s == ArgInt(a[2])
        e == ArgInt(a[3])
    IN  IF Len(a) # 3 \/ ~s.ok \/ ~e.ok THEN Fail(d, EArg)
        ELSE IF WrongType(d, k, "list") THEN Fail(d, WT)
        ELSE IF ~Has(d, k) THEN Res(d, ROk)
        ELSE Res(PutList(d, k, RangeOf(l, s.v, e.v)), ROk)

\* positions (0-based) of matches of x in l, in scan order, honouring RANK, COUNT (0 = all), MAXLEN (0 = all)
MatchPos(l, x, rank, cnt, maxlen) ==
    LET n == Len(l)
        fwd == rank > 0
        scanned == IF maxlen = 0 THEN n ELSE Min2(maxlen, n)
        \* i-th scanned position (1-based i) as 0-based list index
        posAt(i) == IF fwd THEN i - 1 ELSE n - i
        hits == SelectSeq([i \in 1..scanned |-> posAt(i)], LAMBDA p : l[p + 1] = x)
        skip == (IF fwd THEN rank ELSE -rank) - 1
        after == SubSeq(hits, skip + 1, Len(hits))
    IN  IF cnt = 0 THEN after ELSE Take(after, cnt)

\* parse LPOS options: returns [ok, rank, hasCount, count, maxlen]
RECURSIVE LPosOpts(_, _)
LPosOpts(o, acc) ==
    IF o = <<>> THEN acc
    ELSE IF Len(o) < 2 THEN [acc EXCEPT !.ok = FALSE]
    ELSE LET v == ArgInt(o[2])
         IN  IF ~v.ok THEN [acc EXCEPT !.ok = FALSE]
             ELSE IF Is(o[1], "RANK") THEN LPosOpts(SubSeq(o, 3, Len(o)), [acc EXCEPT !.rank = v.v, !.ok = acc.ok /\ v.v # 0])
             ELSE IF Is(o[1], "COUNT") THEN LPosOpts(SubSeq(o, 3, Len(o)), [acc EXCEPT !.hasCount = TRUE, !.count = v.v, !.ok = acc.ok /\ v.v >= 0])
             ELSE IF Is(o[1], "MAXLEN") THEN LPosOpts(SubSeq(o, 3, Len(o)), [acc EXCEPT !.maxlen = v.v, !.ok = acc.ok /\ v.v >= 0])
             ELSE [acc EXCEPT !.ok = FALSE]

LPos(d, a) ==
    LET k == a[1]
        l == ListOf(d, k)
        o == LPosOpts(SubSeq(a, 3, Len(a)), [ok |-> TRUE, rank |-> 1, hasCount |-> FALSE, count |-> 1, maxlen |-> 0])
        m == MatchPos(l, a[2], o.rank, o.count, o.maxlen)
    IN  IF Len(a) < 2 \/ ~o.ok THEN Fail(d, EArg)
        ELSE IF WrongType(d, k, "list") THEN Fail(d, WT)
        ELSE IF o.hasCount THEN Res(d, RArr([i \in 1..Len(m) |-> RInt(m[i])]))
        ELSE IF m = <<>> THEN Res(d, RNil)
        ELSE Res(d, RInt(m[1]))

\* the element transfer shared by LMOVE, RPOPLPUSH and their blocking forms
MoveCore(d, src, dst, fromLeft, toLeft) ==
    LET ls == ListOf(d, src)
        x == IF fromLeft THEN ls[1] ELSE ls[Len(ls)]
        ls2 == IF fromLeft THEN Tail(ls) ELSE SubSeq(ls, 1, Len(ls) - 1)
        d1 == PutList(d, src, ls2)
        ld == ListOf(d1, dst)
        ld2 == IF toLeft THEN <<x>> \o ld ELSE ld \o <<x>>
        \* the destination keeps its own deadline; a rotated list keeps the source's
        e == IF src = dst THEN ExpOf(d, src) ELSE ExpOf(d1, dst)
    IN  IF WrongType(d, src, "list") THEN Fail(d, WT)
        ELSE IF ~Has(d, src) THEN Res(d, RNil)
        ELSE IF WrongType(d, dst, "list") THEN Fail(d, WT)
        ELSE IF src = dst /\ Len(ls) = 1 /\ On("D_LMOVE_SAME_KEY_SINGLE_LOST")
             THEN ResD(Del(d, src), RBulk(x), "D_LMOVE_SAME_KEY_SINGLE_LOST")
        ELSE Res(Put(d1, dst, VList(ld2, e)), RBulk(x))

IsLR(b) == Is(b, "LEFT") \/ Is(b, "RIGHT")

LMove(d, a) ==
    IF Len(a) # 4 \/ ~IsLR(a[3]) \/ ~IsLR(a[4]) THEN Fail(d, EArg)
    ELSE MoveCore(d, a[1], a[2], Is(a[3], "LEFT"), Is(a[4], "LEFT"))

RPopLPush(d, a) ==
    IF Len(a) # 2 THEN Fail(d, EArg)
    ELSE MoveCore(d, a[1], a[2], FALSE, TRUE)

\* LMPOP numkeys key... LEFT|RIGHT [COUNT n]
RECURSIVE MPopScan(_, _, _, _)
MPopScan(d, ks, left, cnt) ==
    IF ks = <<>> THEN Res(d, RNil)
    ELSE LET k == Head(ks)
             l == ListOf(d, k)
             n == Min2(cnt, Len(l))
             taken == IF left THEN Take(l, n) ELSE TakeR(l, n)
             rest == IF left THEN Drop(l, n) ELSE DropR(l, n)
         IN  IF WrongType(d, k, "list") THEN Fail(d, WT)
             ELSE IF ~Has(d, k) THEN MPopScan(d, Tail(ks), left, cnt)
             ELSE Res(PutList(d, k, rest), RArr(<<RBulk(k), RBulks(taken)>>))

LMPopArgs(a) ==
    LET nk == ArgInt(a[1])
        n == nk.v
        okn == Len(a) >= 1 /\ nk.ok /\ n >= 1 /\ Len(a) >= n + 2
        rest == SubSeq(a, n + 3, Len(a))
        c == IF Len(rest) = 2 THEN ArgInt(rest[2]) ELSE [ok |-> TRUE, v |-> 1]
        okr == rest = <<>> \/ (Len(rest) = 2 /\ Is(rest[1], "COUNT") /\ c.ok /\ c.v >= 1)
    IN  IF okn /\ IsLR(a[n + 2]) /\ okr
        THEN [ok |-> TRUE, keys |-> SubSeq(a, 2, n + 1), left |-> Is(a[n + 2], "LEFT"), cnt |-> c.v]
        ELSE [ok |-> FALSE, keys |-> <<>>, left |-> TRUE, cnt |-> 1]

LMPop(d, a) ==
    LET p == LMPopArgs(a)
    IN  IF Len(a) < 3 \/ ~p.ok THEN Fail(d, EArg)
        ELSE MPopScan(d, p.keys, p.left, p.cnt)

-----------------------------------------------------------------------------
(* Blocking forms: TryB(d, nm, a) is the non-blocking attempt a blocking command makes - when it is issued,
   and again whenever one of its lists may have become non-empty.  nil = nothing to pop (the client blocks,
   except inside EXEC).  a = arguments after the name, including the timeout.                               *)
\* timeout in ms: non-negative decimal with at most two fractional digits that are multiples of 0.25
TimeoutMs(bs) == LET q == ParseQ(bs) IN [ok |-> q.ok /\ q.q >= 0, ms |-> q.q * 250]

RECURSIVE BPopScan(_, _, _)
BPopScan(d, ks, left) ==
    IF ks = <<>> THEN Res(d, RNil)
    ELSE LET k == Head(ks)
             lst == ListOf(d, k)
         IN  IF WrongType(d, k, "list") THEN Fail(d, WT)
             ELSE IF ~Has(d, k) THEN BPopScan(d, Tail(ks), left)
             ELSE Res(PutList(d, k, IF left THEN Tail(lst) ELSE SubSeq(lst, 1, Len(lst) - 1)),
                      RArr(<<RBulk(k), RBulk(IF left THEN lst[1] ELSE lst[Len(lst)])>>))

BTimeoutArg(nm, a) == IF nm = "BLMPOP" THEN a[1] ELSE a[Len(a)]
BKeys(nm, a) == CASE nm \in {"BLPOP", "BRPOP"} -> SubSeq(a, 1, Len(a) - 1)
                  [] nm \in {"BLMOVE", "BRPOPLPUSH"} -> <<a[1]>>
                  [] OTHER -> LMPopArgs(Tail(a)).keys
BArgsOk(nm, a) ==
    CASE nm \in {"BLPOP", "BRPOP"} -> Len(a) >= 2 /\ TimeoutMs(a[Len(a)]).ok
      [] nm = "BLMOVE" -> Len(a) = 5 /\ IsLR(a[3]) /\ IsLR(a[4]) /\ TimeoutMs(a[5]).ok
      [] nm = "BRPOPLPUSH" -> Len(a) = 3 /\ TimeoutMs(a[3]).ok
      [] OTHER -> Len(a) >= 4 /\ TimeoutMs(a[1]).ok /\ LMPopArgs(Tail(a)).ok
TryB(d, nm, a) ==
    IF ~BArgsOk(nm, a) THEN Fail(d, EArg)
    ELSE CASE nm = "BLPOP" -> BPopScan(d, BKeys(nm, a), TRUE)
           [] nm = "BRPOP" -> BPopScan(d, BKeys(nm, a), FALSE)
           [] nm = "BLMOVE" -> MoveCore(d, a[1], a[2], Is(a[3], "LEFT"), Is(a[4], "LEFT"))
           [] nm = "BRPOPLPUSH" -> MoveCore(d, a[1], a[2], FALSE, TRUE)
           [] OTHER -> LMPop(d, Tail(a))

=============================================================================
