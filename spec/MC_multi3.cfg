SPECIFICATION TSpec
CONSTANTS
  OpenDev = {}
  States <- Multi3States
  Vocab <- Multi3Vocab
  TreeOk <- Multi3Ok
  Depth = 9
  CmdU = {}
  Relevant <- AllRelevant
  Fam = "multi3"
ACTION_CONSTRAINT TEmit
INVARIANT TWellFormed
PROPERTY SessionIsolation
PROPERTY NamespaceIsolation
PROPERTY FlushGlobal
CHECK_DEADLOCK FALSE
