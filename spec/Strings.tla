------------------------------- MODULE Strings ------------------------------
(***************************************************************************)
(* String and counter commands.  Time is the model clock in milliseconds.   *)
(***************************************************************************)
EXTENDS Store

StrOf(d, k) == IF Has(d, k) /\ d[k].ty = "string" THEN d[k].s ELSE <<>>
IsStr(d, k) == Has(d, k) /\ d[k].ty = "string"

\* result with deadline-comparison hints
ResT(db, r, relk, tolk) == [db |-> db, r |-> r, dv |-> {}, rel |-> relk, tol |-> tolk]
WithDv(res, id) == [res EXCEPT !.dv = @ \cup {id}]

\* a deadline that has already passed means the key does not exist
PutStrAt(d, k, s, e, now) == IF e # 0 /\ e <= now /\ ~Real THEN Del(d, k) ELSE Put(d, k, VStr(s, e))

(* expiry options shared by SET and GETEX: EX s | PX ms | EXAT ts | PXAT ms-ts | KEEPTTL | PERSIST
   returns [ok, kind \in {"none","rel","sec","abs","keep","persist"}, at] *)
ExpOpt(name, val, now) ==
    LET n == ArgInt(val)
        t == AbsTimeArg(val)
    IN  CASE Is(name, "EX") -> IF n.ok /\ n.v > 0 THEN [ok |-> TRUE, kind |-> "rel", at |-> now + 1000 * n.v] ELSE [ok |-> FALSE, kind |-> "none", at |-> 0]
          [] Is(name, "PX") -> IF n.ok /\ n.v > 0 THEN [ok |-> TRUE, kind |-> "rel", at |-> now + n.v] ELSE [ok |-> FALSE, kind |-> "none", at |-> 0]
          [] Is(name, "EXAT") -> IF t.ok /\ t.pos THEN [ok |-> TRUE, kind |-> "sec", at |-> t.v] ELSE [ok |-> FALSE, kind |-> "none", at |-> 0]
          [] Is(name, "PXAT") -> IF t.ok /\ t.pos THEN [ok |-> TRUE, kind |-> "abs", at |-> t.v] ELSE [ok |-> FALSE, kind |-> "none", at |-> 0]
          [] OTHER -> [ok |-> FALSE, kind |-> "none", at |-> 0]
IsExpName(b) == Is(b, "EX") \/ Is(b, "PX") \/ Is(b, "EXAT") \/ Is(b, "PXAT")

\* SET options, any order: acc = [ok, nx, xx, get, exp]
RECURSIVE SetOpts(_, _, _)
SetOpts(o, acc, now) ==
    IF o = <<>> \/ ~acc.ok THEN acc
    ELSE IF Is(o[1], "NX") THEN SetOpts(Tail(o), [acc EXCEPT !.nx = TRUE, !.ok = ~acc.nx /\ ~acc.xx], now)
    ELSE IF Is(o[1], "XX") THEN SetOpts(Tail(o), [acc EXCEPT !.xx = TRUE, !.ok = ~acc.nx /\ ~acc.xx], now)
    ELSE IF Is(o[1], "GET") THEN SetOpts(Tail(o), [acc EXCEPT !.get = TRUE, !.ok = ~acc.get], now)
    ELSE IF Is(o[1], "KEEPTTL") THEN SetOpts(Tail(o), [acc EXCEPT !.exp = [ok |-> TRUE, kind |-> "keep", at |-> 0], !.ok = acc.exp.kind = "none"], now)
    ELSE IF IsExpName(o[1]) /\ Len(o) >= 2
         THEN LET e == ExpOpt(o[1], o[2], now)
              IN  SetOpts(SubSeq(o, 3, Len(o)), [acc EXCEPT !.exp = e, !.ok = e.ok /\ acc.exp.kind = "none"], now)
    ELSE [acc EXCEPT !.ok = FALSE]

NoExpOpt == [ok |-> TRUE, kind |-> "none", at |-> 0]

\* order of the option classes of a (valid) SET option list: C = NX|XX, G = GET, E = expiry option
RECURSIVE OptShape(_)
OptShape(o) ==
    IF o = <<>> THEN <<>>
    ELSE IF Is(o[1], "NX") \/ Is(o[1], "XX") THEN <<"C">> \o OptShape(Tail(o))
    ELSE IF Is(o[1], "GET") THEN <<"G">> \o OptShape(Tail(o))
    ELSE IF Is(o[1], "KEEPTTL") THEN <<"E">> \o OptShape(Tail(o))
    ELSE <<"E">> \o OptShape(SubSeq(o, 3, Len(o)))

Set(d, now, a) ==
    LET k == a[1]
        o == SetOpts(SubSeq(a, 3, Len(a)), [ok |-> TRUE, nx |-> FALSE, xx |-> FALSE, get |-> FALSE, exp |-> NoExpOpt], now)
        old == IF IsStr(d, k) THEN RBulk(d[k].s) ELSE RNil
        e == CASE o.exp.kind = "keep" -> ExpOf(d, k)
               [] o.exp.kind = "none" -> 0
               [] OTHER -> o.exp.at
        relk == IF o.exp.kind = "rel" THEN {k} ELSE {}
        tolk == IF o.exp.kind = "sec" THEN {k} ELSE {}
        blocked == (o.nx /\ Has(d, k)) \/ (o.xx /\ ~Has(d, k))
    IN  IF Len(a) < 2 \/ ~o.ok THEN Fail(d, EArg)
        ELSE IF On("D_SET_OPTION_ORDERS_CEG_EGC_REJECTED") /\ OptShape(SubSeq(a, 3, Len(a))) \in {<<"C", "E", "G">>, <<"E", "G", "C">>}
             THEN ResD(d, EArg, "D_SET_OPTION_ORDERS_CEG_EGC_REJECTED")
        ELSE IF o.get /\ WrongType(d, k, "string") THEN Fail(d, WT)
        ELSE IF blocked THEN Res(d, IF o.get THEN old ELSE RNil)
        ELSE ResT(PutStrAt(d, k, a[2], e, now), IF o.get THEN old ELSE ROk, relk, tolk)

\* the emulator recognises SETNX / MSETNX only when the client spells the name in lower case
SetNx(d, now, a, spelledLower) ==
    IF Len(a) # 2 THEN Fail(d, EArg)
    ELSE IF ~spelledLower /\ On("D_SETNX_MSETNX_UPPERCASE_ACT_AS_SET")
         THEN ResD(Put(d, a[1], VStr(a[2], 0)), ROk, "D_SETNX_MSETNX_UPPERCASE_ACT_AS_SET")
    ELSE IF Has(d, a[1]) THEN Res(d, RInt(0))
    ELSE Res(Put(d, a[1], VStr(a[2], 0)), RInt(1))

SetEx(d, now, a, unitMs) ==
    LET n == ArgInt(a[2])
    IN  IF Len(a) # 3 \/ ~n.ok \/ n.v <= 0 THEN Fail(d, EArg)
        ELSE ResT(Put(d, a[1], VStr(a[3], now + n.v * unitMs)), ROk, {a[1]}, {})

Get(d, a) ==
    IF Len(a) # 1 THEN Fail(d, EArg)
    ELSE IF WrongType(d, a[1], "string") THEN Fail(d, WT)
    ELSE IF Has(d, a[1]) THEN Res(d, RBulk(d[a[1]].s)) ELSE Res(d, RNil)

GetSet(d, a) ==
    IF Len(a) # 2 THEN Fail(d, EArg)
    ELSE IF WrongType(d, a[1], "string") THEN Fail(d, WT)
    ELSE Res(Put(d, a[1], VStr(a[2], 0)), IF Has(d, a[1]) THEN RBulk(d[a[1]].s) ELSE RNil)

GetDel(d, a) ==
    IF Len(a) # 1 THEN Fail(d, EArg)
    ELSE IF WrongType(d, a[1], "string") THEN Fail(d, WT)
    ELSE IF Has(d, a[1]) THEN Res(Del(d, a[1]), RBulk(d[a[1]].s)) ELSE Res(d, RNil)

GetEx(d, now, a) ==
    LET k == a[1]
        o == SubSeq(a, 2, Len(a))
        e == IF o = <<>> THEN NoExpOpt
             ELSE IF Len(o) = 1 /\ Is(o[1], "PERSIST") THEN [ok |-> TRUE, kind |-> "persist", at |-> 0]
             ELSE IF Len(o) = 2 /\ IsExpName(o[1]) THEN ExpOpt(o[1], o[2], now)
             ELSE [ok |-> FALSE, kind |-> "none", at |-> 0]
        newExp == CASE e.kind = "none" -> ExpOf(d, k)
                    [] e.kind = "persist" -> 0
                    [] OTHER -> e.at
        relk == IF e.kind = "rel" THEN {k} ELSE {}
        tolk == IF e.kind = "sec" THEN {k} ELSE {}
    IN  IF Len(a) < 1 \/ ~e.ok THEN Fail(d, EArg)
        ELSE IF WrongType(d, k, "string") THEN Fail(d, WT)
        ELSE IF ~Has(d, k) THEN Res(d, RNil)
        ELSE IF e.kind = "none" /\ ExpOf(d, k) # 0 /\ On("D_GETEX_WITHOUT_OPTION_CLEARS_TTL")
             THEN ResD(Put(d, k, VStr(d[k].s, 0)), RBulk(d[k].s), "D_GETEX_WITHOUT_OPTION_CLEARS_TTL")
        ELSE ResT(PutStrAt(d, k, d[k].s, newExp, now), RBulk(d[k].s), relk, tolk)

MGet(d, a) ==
    IF Len(a) < 1 THEN Fail(d, EArg)
    ELSE Res(d, RArr([i \in 1..Len(a) |-> IF IsStr(d, a[i]) THEN RBulk(d[a[i]].s) ELSE RNil]))

RECURSIVE MSetAll(_, _)
MSetAll(d, kv) == IF kv = <<>> THEN d ELSE MSetAll(Put(d, kv[1], VStr(kv[2], 0)), SubSeq(kv, 3, Len(kv)))

MSet(d, a) ==
    IF Len(a) < 2 \/ Len(a) % 2 # 0 THEN Fail(d, EArg)
    ELSE Res(MSetAll(d, a), ROk)

MSetNx(d, a, spelledLower) ==
    LET ks == {a[2 * i - 1] : i \in 1..(Len(a) \div 2)}
    IN  IF Len(a) < 2 \/ Len(a) % 2 # 0 THEN Fail(d, EArg)
        ELSE IF ~spelledLower /\ On("D_SETNX_MSETNX_UPPERCASE_ACT_AS_SET")
             THEN ResD(MSetAll(d, a), ROk, "D_SETNX_MSETNX_UPPERCASE_ACT_AS_SET")
        ELSE IF \E k \in ks : Has(d, k) THEN Res(d, RInt(0))
        ELSE Res(MSetAll(d, a), RInt(1))

AppendCmd(d, a) ==
    LET k == a[1]
        s2 == StrOf(d, k) \o a[2]
    IN  IF Len(a) # 2 THEN Fail(d, EArg)
        ELSE IF WrongType(d, k, "string") THEN Fail(d, WT)
        ELSE IF ExpOf(d, k) # 0 /\ On("D_APPEND_CLEARS_TTL")
             THEN ResD(Put(d, k, VStr(s2, 0)), RInt(Len(s2)), "D_APPEND_CLEARS_TTL")
        ELSE Res(Put(d, k, VStr(s2, ExpOf(d, k))), RInt(Len(s2)))

StrLen(d, a) ==
    IF Len(a) # 1 THEN Fail(d, EArg)
    ELSE IF WrongType(d, a[1], "string") THEN Fail(d, WT)
    ELSE Res(d, RInt(Len(StrOf(d, a[1]))))

\* Redis 7.0 getrangeCommand
GetRangeOf(s, s0, e0) ==
    LET n == Len(s)
        s1 == IF s0 < 0 THEN Max2(n + s0, 0) ELSE s0
        e1 == IF e0 < 0 THEN Max2(n + e0, 0) ELSE e0
        e2 == IF e1 >= n THEN n - 1 ELSE e1
    IN  IF (s0 < 0 /\ e0 < 0 /\ s0 > e0) \/ n = 0 \/ s1 > e2 THEN <<>> ELSE SubSeq(s, s1 + 1, e2 + 1)
\* what the emulator computes instead when both ends are negative and end lies before the string
EmuGetRangeOf(s, s0, e0) ==
    LET n == Len(s)
        s1 == IF s0 < 0 THEN n + s0 ELSE s0
        e1 == IF e0 < 0 THEN n + e0 ELSE e0
        s2 == IF s1 < 0 THEN 0 ELSE IF s1 > n THEN n ELSE s1
        e2 == IF e1 < s2 THEN s2 - 1 ELSE IF e1 >= n THEN n - 1 ELSE e1
    IN  SubSeq(s, s2 + 1, e2 + 1)

GetRange(d, a) ==
    LET s == StrOf(d, a[1])
        i == ArgInt(a[2])
        j == ArgInt(a[3])
        ideal == GetRangeOf(s, i.v, j.v)
        emu == EmuGetRangeOf(s, i.v, j.v)
    IN  IF Len(a) # 3 \/ ~i.ok \/ ~j.ok THEN Fail(d, EArg)
        ELSE IF WrongType(d, a[1], "string") THEN Fail(d, WT)
        ELSE IF ~Has(d, a[1]) /\ On("D_GETRANGE_MISSING_KEY_NIL") THEN ResD(d, RNil, "D_GETRANGE_MISSING_KEY_NIL")
        ELSE IF emu # ideal /\ On("D_GETRANGE_NEGATIVE_END_CLAMP") THEN ResD(d, RBulk(emu), "D_GETRANGE_NEGATIVE_END_CLAMP")
        ELSE Res(d, RBulk(ideal))

Zeros(n) == [i \in 1..n |-> 0]

SetRange(d, a) ==
    LET k == a[1]
        off == ArgInt(a[2])
        v == a[3]
        s == StrOf(d, k)
        padded == IF Len(s) < off.v THEN s \o Zeros(off.v - Len(s)) ELSE s
        s2 == SubSeq(padded, 1, off.v) \o v \o SubSeq(padded, off.v + Len(v) + 1, Len(padded))
    IN  IF Len(a) # 3 \/ ~off.ok THEN Fail(d, EArg)
        ELSE IF off.v < 0 THEN
             (IF On("D_SETRANGE_NEGATIVE_OFFSET_PANICS") /\ ~WrongType(d, k, "string")
              THEN ResD(d, [t |-> "dead"], "D_SETRANGE_NEGATIVE_OFFSET_PANICS")
              \* offset error and type error both apply to a wrong-typed key: either code is accepted
              ELSE Fail(d, IF WrongType(d, k, "string") THEN RErr("ERR|WRONGTYPE") ELSE EArg))
        ELSE IF WrongType(d, k, "string") THEN Fail(d, WT)
        ELSE IF v = <<>> THEN
             (IF ~Has(d, k) /\ On("D_SETRANGE_EMPTY_VALUE_CREATES_KEY")
              THEN ResD(Put(d, k, VStr(Zeros(off.v), 0)), RInt(off.v), "D_SETRANGE_EMPTY_VALUE_CREATES_KEY")
              ELSE IF Has(d, k) /\ Len(s) < off.v /\ On("D_SETRANGE_EMPTY_VALUE_CREATES_KEY")
              THEN ResD(Put(d, k, VStr(padded, ExpOf(d, k))), RInt(Len(padded)), "D_SETRANGE_EMPTY_VALUE_CREATES_KEY")
              ELSE Res(d, RInt(Len(s))))
        ELSE Res(Put(d, k, VStr(s2, ExpOf(d, k))), RInt(Len(s2)))

\* INCR DECR INCRBY DECRBY: delta as Num
IncrBy(d, k, delta) ==
    LET old == IF Has(d, k) THEN ParseI64(d[k].s) ELSE [ok |-> TRUE, num |-> NumZero]
        sum == NumAdd(old.num, delta)
        sb == NumToBytes(sum)
    IN  IF WrongType(d, k, "string") THEN Fail(d, WT)
        ELSE IF ~old.ok \/ ~InI64(sum) THEN Fail(d, RErr("ERR"))
        ELSE Res(Put(d, k, VStr(sb, ExpOf(d, k))), RIntD(sb))

Incr(d, a, sign) ==
    IF Len(a) # 1 THEN Fail(d, EArg) ELSE IncrBy(d, a[1], IntToNum(sign))

IncrByCmd(d, a, sign) ==
    LET p == ParseI64(a[2])
        delta == IF sign < 0 THEN NumNeg(p.num) ELSE p.num
    IN  IF Len(a) # 2 \/ ~p.ok THEN Fail(d, EArg)
        ELSE IF sign < 0 /\ ~InI64(delta) THEN                          \* DECRBY k -2^63
             (IF On("D_DECRBY_MIN_INT_NEGATION_WRAPS") THEN WithDv(IncrBy(d, a[1], NumMinI64), "D_DECRBY_MIN_INT_NEGATION_WRAPS")
              ELSE Fail(d, RErr("ERR")))
        ELSE IncrBy(d, a[1], delta)

IncrByFloat(d, a) ==
    LET k == a[1]
        inc == ParseQ(a[2])
        old == IF Has(d, k) /\ d[k].ty = "string" THEN ParseQ(d[k].s) ELSE [ok |-> TRUE, q |-> 0]
        new == FormatQ(old.q + inc.q)
    IN  IF Len(a) # 2 \/ ~inc.ok THEN Fail(d, EArg)
        ELSE IF WrongType(d, k, "string") THEN Fail(d, WT)
        ELSE IF ~old.ok THEN Fail(d, RErr("ERR"))
        ELSE Res(Put(d, k, VStr(new, ExpOf(d, k))), RBulk(new))

\* length of a longest common subsequence
\* length of the longest common subsequence, by rows of the usual table (row k+1 = column k); the textbook
\* recursion is exponential and a random walk that APPENDs to a 19-digit number and then asks for LCS never ends
LcsRow(prev, xi, y) ==
    FoldLeft(LAMBDA acc, j : Append(acc, IF xi = y[j] THEN prev[j] + 1 ELSE Max2(prev[j + 1], acc[j])),
             <<0>>, [j \in 1..Len(y) |-> j])
LcsLen(x, y) ==
    LET last == FoldLeft(LAMBDA prev, i : LcsRow(prev, x[i], y), [k \in 1..(Len(y) + 1) |-> 0], [i \in 1..Len(x) |-> i])
    IN  last[Len(y) + 1]

Lcs(d, a) ==
    LET x == StrOf(d, a[1])
        y == StrOf(d, a[2])
        wantLen == Len(a) = 3 /\ Is(a[3], "LEN")
        missing == ~Has(d, a[1]) \/ ~Has(d, a[2])
    IN  IF Len(a) < 2 \/ Len(a) > 3 \/ (Len(a) = 3 /\ ~wantLen) THEN Fail(d, EArg)
        ELSE IF WrongType(d, a[1], "string") \/ WrongType(d, a[2], "string") THEN Fail(d, WT)
        ELSE IF wantLen THEN
             (IF missing /\ On("D_LCS_LEN_MISSING_KEY_EMPTY_STRING") THEN ResD(d, RBulk(<<>>), "D_LCS_LEN_MISSING_KEY_EMPTY_STRING")
              ELSE Res(d, RInt(LcsLen(x, y))))
        ELSE Res(d, RLcs(x, y, LcsLen(x, y)))

=============================================================================
