SPECIFICATION BSpec
CONSTANTS
  OpenDev = {}
  BStates <- BlockStates
  BVocab <- BlockVocab
  BTreeOk <- BlockOk
  BDepth = 4
  Fam = "block"
ACTION_CONSTRAINT BEmit
INVARIANT NoStuckWaiter
INVARIANT BlockedIsClean
PROPERTY OncePerStep
CHECK_DEADLOCK FALSE
