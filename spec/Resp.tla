-------------------------------- MODULE Resp --------------------------------
(***************************************************************************)
(* Reply values as typed trees.  A reply is what the client can observe;    *)
(* where Redis leaves an order or a random choice open, the tree says so    *)
(* (uset / umap / rand) instead of fixing one.  Integers that may exceed    *)
(* 32 bits are carried as decimal byte strings ("intd").                    *)
(***************************************************************************)
EXTENDS Bytes

RNil        == [t |-> "nil"]
RInt(n)     == [t |-> "int", n |-> n]
RIntD(bs)   == [t |-> "intd", d |-> bs]          \* integer given by its decimal text
RBulk(s)    == [t |-> "bulk", s |-> s]
RSimple(v)  == [t |-> "simple", v |-> v]         \* v : TLA+ string, e.g. "OK", "QUEUED", "PONG"
ROk         == RSimple("OK")
RErr(code)  == [t |-> "err", code |-> code]      \* compared by error code (first word) only
RArr(a)     == [t |-> "arr", a |-> a]            \* ordered; a : sequence of replies
RBulks(ss)  == RArr([i \in 1..Len(ss) |-> RBulk(ss[i])])
RUSet(m)    == [t |-> "uset", m |-> m]           \* unordered collection of distinct bulk strings (array or RESP3 set)
RUBag(a)    == [t |-> "ubag", a |-> a]           \* unordered collection with repetitions (HVALS); a : sequence of byte strings
RUMap(p)    == [t |-> "umap", p |-> p]           \* unordered field/value pairs (RESP3 map or flat RESP2 array); p : set of <<f,v>>
RDouble(bs) == [t |-> "dbl", d |-> bs]           \* double given by its shortest decimal text
\* random choice: n elements drawn from set m; distinct or with repetition; "one" = a single bulk instead of an array
RRand(m, n, distinct) == [t |-> "rand", m |-> m, n |-> n, distinct |-> distinct]
RRandOne(m) == [t |-> "randone", m |-> m]
RRandPairs(p, n, distinct) == [t |-> "randpairs", p |-> p, n |-> n, distinct |-> distinct]
\* integer that depends on the wall clock: v in model time units, unit "s" or "ms"
RTtl(v, unit) == [t |-> "ttl", v |-> v, unit |-> unit]
\* absolute time reply (EXPIRETIME/PEXPIRETIME): model time v
\* mode: "abs" exact, "sec" given in whole seconds, "rel" set relative to the server clock
RTime(v, unit, mode) == [t |-> "time", v |-> v, unit |-> unit, mode |-> mode]
\* LCS: any common subsequence of a and b of the maximal length n
RLcs(a, b, n) == [t |-> "lcs", a |-> a, b |-> b, n |-> n]
RAny == [t |-> "any"]                            \* content not specified by the model (INFO text ...)

IsErr(r) == r.t = "err"

=============================================================================
