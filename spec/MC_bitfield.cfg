SPECIFICATION Spec
CONSTANTS
  OpenDev = {}
  States <- BfStates
  CmdU <- BfCmds
  Relevant <- BfRelevant
  Fam = "bitfield"
ACTION_CONSTRAINT Emit
VIEW View
INVARIANT WellFormed
PROPERTY FailedInert
CHECK_DEADLOCK FALSE
