SPECIFICATION TSpec
CONSTANTS
  OpenDev = {}
  States <- Txn2States
  Vocab <- Txn2Vocab
  TreeOk <- Txn2Ok
  Depth = 5
  CmdU = {}
  Relevant <- AllRelevant
  Fam = "txn2"
ACTION_CONSTRAINT TEmit
INVARIANT TWellFormed
PROPERTY QueuedInvisible
PROPERTY ResetAfterExec
PROPERTY ExecAllOrNothing
PROPERTY SessionIsolation
PROPERTY WatchIff
CHECK_DEADLOCK FALSE
