------------------------------ MODULE Keyspace ------------------------------
(***************************************************************************)
(* Generic key commands and expiry.  raw is the stored database (may hold   *)
(* entries whose deadline has passed), d == Live(raw, now) what commands    *)
(* must act on.  Deviations that come from the emulator looking at raw      *)
(* where it should look at d are spelled out here.                          *)
(***************************************************************************)
EXTENDS Strings, Lists

Expired(raw, now, k) == Has(raw, k) /\ ~IsLive(raw[k], now)

Del_(d, a) ==
    LET ks == {a[i] : i \in 1..Len(a)}
    IN  IF Len(a) < 1 THEN Fail(d, EArg)
        ELSE Res(DelAll(d, ks), RInt(Cardinality(ks \cap DOMAIN d)))

\* UNLINK marks the object as expired in the deep past instead of removing it
Unlink(d, a) ==
    LET ks == {a[i] : i \in 1..Len(a)}
        hit == ks \cap DOMAIN d
    IN  IF Len(a) < 1 THEN Fail(d, EArg)
        ELSE IF On("D_UNLINK_LEAVES_EXPIRED_OBJECT") /\ hit # {}
             THEN ResD([k \in DOMAIN d |-> IF k \in hit THEN [d[k] EXCEPT !.exp = DeepPast] ELSE d[k]],
                       RInt(Cardinality(hit)), "D_UNLINK_LEAVES_EXPIRED_OBJECT")
        ELSE Res(DelAll(d, ks), RInt(Cardinality(hit)))

Exists(d, a) ==
    IF Len(a) < 1 THEN Fail(d, EArg)
    ELSE Res(d, RInt(Cardinality({i \in 1..Len(a) : Has(d, a[i])})))

Touch(d, a) == Exists(d, a)

Type(d, a) ==
    IF Len(a) # 1 THEN Fail(d, EArg) ELSE Res(d, RSimple(Ty(d, a[1])))

Rename(raw, d, now, a, nx) ==
    LET src == a[1]
        dst == a[2]
        moved == Put(Del(d, src), dst, d[src])
    IN  IF Len(a) # 2 THEN Fail(d, EArg)
        ELSE IF ~Has(d, src) THEN
             (IF Expired(raw, now, src) /\ On("D_RENAME_SEES_EXPIRED_KEYS") THEN
                  \* the expired object is moved (and may bury a live destination)
                  (IF nx /\ Has(raw, dst) THEN ResD(d, RInt(0), "D_RENAME_SEES_EXPIRED_KEYS")
                   ELSE ResD(Put(Del(d, dst), dst, raw[src]), IF nx THEN RInt(1) ELSE ROk, "D_RENAME_SEES_EXPIRED_KEYS"))
              ELSE Fail(d, RErr("ERR")))
        ELSE IF nx /\ Has(d, dst) THEN Res(d, RInt(0))
        ELSE IF nx /\ Expired(raw, now, dst) /\ On("D_RENAME_SEES_EXPIRED_KEYS") THEN ResD(d, RInt(0), "D_RENAME_SEES_EXPIRED_KEYS")
        ELSE IF src = dst THEN Res(d, IF nx THEN RInt(0) ELSE ROk)
        ELSE Res(moved, IF nx THEN RInt(1) ELSE ROk)

\* COPY source destination [REPLACE]
Copy(raw, d, now, a) ==
    LET src == a[1]
        dst == a[2]
        repl == Len(a) = 3 /\ Is(a[3], "REPLACE")
        srcTy == Ty(d, src)
    IN  IF Len(a) < 2 \/ Len(a) > 3 \/ (Len(a) = 3 /\ ~repl) THEN Fail(d, EArg)
        ELSE IF ~Has(d, src) THEN
             (IF Expired(raw, now, src) /\ On("D_COPY_SEES_EXPIRED_KEYS")
              THEN (IF ~repl /\ Has(raw, dst) THEN ResD(d, RInt(0), "D_COPY_SEES_EXPIRED_KEYS")
                    ELSE IF raw[src].ty \in {"hash", "set"} /\ On("D_COPY_HASH_SET_PANICS")
                         THEN [ResD(d, [t |-> "dead"], "D_COPY_SEES_EXPIRED_KEYS") EXCEPT !.dv = @ \cup {"D_COPY_HASH_SET_PANICS"}]
                    \* the copy of the expired object (invisible) replaces whatever the destination held
                    ELSE ResD(Put(Del(d, dst), dst, raw[src]), RInt(1), "D_COPY_SEES_EXPIRED_KEYS"))
              ELSE Res(d, RInt(0)))
        ELSE IF ~repl /\ Has(d, dst) THEN Res(d, RInt(0))
        ELSE IF ~repl /\ Expired(raw, now, dst) /\ On("D_COPY_SEES_EXPIRED_KEYS") THEN ResD(d, RInt(0), "D_COPY_SEES_EXPIRED_KEYS")
        ELSE IF srcTy \in {"hash", "set"} /\ On("D_COPY_HASH_SET_PANICS") THEN ResD(d, [t |-> "dead"], "D_COPY_HASH_SET_PANICS")
        ELSE IF srcTy = "list" /\ On("D_COPY_LIST_YIELDS_EMPTY_LIST")
             THEN ResD(Put(d, dst, VList(<<>>, d[src].exp)), RInt(1), "D_COPY_LIST_YIELDS_EMPTY_LIST")
        ELSE Res(Put(d, dst, d[src]), RInt(1))

KeysCmd(d, a) ==
    LET ideal == {k \in DOMAIN d : Glob(a[1], k)}
        emu == {k \in DOMAIN d : EmuGlob(a[1], k)}
    IN  IF Len(a) # 1 THEN Fail(d, EArg)
        ELSE IF emu # ideal /\ On("D_GLOB_CLASS_NO_NEGATION_NO_RANGE") THEN ResD(d, RUSet(emu), "D_GLOB_CLASS_NO_NEGATION_NO_RANGE")
        ELSE Res(d, RUSet(ideal))

RandomKey(raw, d, now, a) ==
    IF Len(a) # 0 THEN Fail(d, EArg)
    ELSE IF On("D_RANDOMKEY_RETURNS_EXPIRED_KEYS") /\ DOMAIN raw # DOMAIN d
         THEN ResD(d, RRandOne(DOMAIN raw), "D_RANDOMKEY_RETURNS_EXPIRED_KEYS")
    ELSE IF DOMAIN d = {} THEN Res(d, RNil)
    ELSE Res(d, RRandOne(DOMAIN d))

\* ---- expiry ---------------------------------------------------------------
\* EXPIRE / PEXPIRE / EXPIREAT / PEXPIREAT key t [NX|XX|GT|LT]
ExpireGeneric(d, now, a, kind) ==
    LET k == a[1]
        n == ArgInt(a[2])
        t == AbsTimeArg(a[2])
        okArg == IF kind \in {"s", "ms"} THEN n.ok ELSE t.ok
        at == CASE kind = "s" -> now + 1000 * n.v
                [] kind = "ms" -> now + n.v
                [] OTHER -> (IF t.pos THEN t.v ELSE DeepPast)
        opt == IF Len(a) = 3 THEN Upper(a[3]) ELSE <<>>
        okOpt == Len(a) = 2 \/ opt \in {B("NX"), B("XX"), B("GT"), B("LT")}
        cur == ExpOf(d, k)
        pass == CASE opt = B("NX") -> cur = 0
                  [] opt = B("XX") -> cur # 0
                  [] opt = B("GT") -> cur # 0 /\ at > cur
                  [] opt = B("LT") -> cur = 0 \/ at < cur
                  [] OTHER -> TRUE
        relk == IF kind \in {"s", "ms"} THEN {k} ELSE {}
        tolk == IF kind = "ats" THEN {k} ELSE {}
    IN  IF Len(a) < 2 \/ Len(a) > 3 \/ ~okArg \/ ~okOpt THEN Fail(d, EArg)
        ELSE IF ~Has(d, k) THEN Res(d, RInt(0))
        ELSE IF ~pass THEN Res(d, RInt(0))
        ELSE IF at <= now THEN Res(IF Real THEN Put(d, k, [d[k] EXCEPT !.exp = at]) ELSE Del(d, k), RInt(1))
        ELSE ResT(Put(d, k, [d[k] EXCEPT !.exp = at]), RInt(1), relk, tolk)

(* GT / LT compare the new deadline with the current one.  Deadlines set relative to the server
   clock, or in whole seconds, are only known to the model within about a second, so a comparison
   of two deadlines less than 2 s apart has no defined outcome in the model: such (state, command)
   pairs are not claimed by the bounded models.                                                   *)
ExpireAmbiguous(d, now, a, kind) ==
    LET n == ArgInt(a[2])
        t == AbsTimeArg(a[2])
        at == CASE kind = "s" -> now + 1000 * n.v
                [] kind = "ms" -> now + n.v
                [] OTHER -> (IF t.pos THEN t.v ELSE DeepPast)
        cur == ExpOf(d, a[1])
        diff == IF at > cur THEN at - cur ELSE cur - at
    IN  /\ Len(a) = 3 /\ (Is(a[3], "GT") \/ Is(a[3], "LT"))
        /\ (IF kind \in {"s", "ms"} THEN n.ok ELSE t.ok)
        /\ cur # 0 /\ diff < 2000

Persist(d, a) ==
    IF Len(a) # 1 THEN Fail(d, EArg)
    ELSE IF ~Has(d, a[1]) \/ ExpOf(d, a[1]) = 0 THEN Res(d, RInt(0))
    ELSE Res(Put(d, a[1], [d[a[1]] EXCEPT !.exp = 0]), RInt(1))

Ttl(d, now, a, unit) ==
    IF Len(a) # 1 THEN Fail(d, EArg)
    ELSE IF ~Has(d, a[1]) THEN Res(d, RInt(-2))
    ELSE IF ExpOf(d, a[1]) = 0 THEN Res(d, RInt(-1))
    ELSE Res(d, RTtl(ExpOf(d, a[1]) - now, unit))

ExpireTime(d, a, unit) ==
    IF Len(a) # 1 THEN Fail(d, EArg)
    ELSE IF ~Has(d, a[1]) THEN Res(d, RInt(-2))
    ELSE IF ExpOf(d, a[1]) = 0 THEN Res(d, RInt(-1))
    ELSE Res(d, RTime(ExpOf(d, a[1]), unit, "abs"))

\* ---- SORT key [BY pattern] [LIMIT off cnt] [GET pattern ...] [ASC|DESC] [ALPHA] [STORE dest] ----
\* (patterns of the form key->field, which look into hashes, are not modelled)
NumLess(x, y) == LET p == ParseI64(x) q == ParseI64(y) c == NumCmp(p.num, q.num)
                 IN  IF c # 0 THEN c < 0 ELSE BytesLess(x, y)
SortedBy(S, less(_, _)) == SortSeq(S, less)

RECURSIVE SortOpts(_, _)
SortOpts(o, acc) ==
    IF o = <<>> \/ ~acc.ok THEN acc
    ELSE IF Is(o[1], "ASC") THEN SortOpts(Tail(o), [acc EXCEPT !.desc = FALSE])
    ELSE IF Is(o[1], "DESC") THEN SortOpts(Tail(o), [acc EXCEPT !.desc = TRUE])
    ELSE IF Is(o[1], "ALPHA") THEN SortOpts(Tail(o), [acc EXCEPT !.alpha = TRUE])
    ELSE IF Is(o[1], "LIMIT") /\ Len(o) >= 3 /\ ArgInt(o[2]).ok /\ ArgInt(o[3]).ok
         THEN SortOpts(SubSeq(o, 4, Len(o)), [acc EXCEPT !.lim = TRUE, !.off = ArgInt(o[2]).v, !.cnt = ArgInt(o[3]).v])
    ELSE IF Is(o[1], "BY") /\ Len(o) >= 2 THEN SortOpts(SubSeq(o, 3, Len(o)), [acc EXCEPT !.by = <<o[2]>>])
    ELSE IF Is(o[1], "GET") /\ Len(o) >= 2 THEN SortOpts(SubSeq(o, 3, Len(o)), [acc EXCEPT !.gets = Append(@, o[2])])
    ELSE IF Is(o[1], "STORE") /\ Len(o) >= 2 THEN SortOpts(SubSeq(o, 3, Len(o)), [acc EXCEPT !.store = <<o[2]>>])
    ELSE [acc EXCEPT !.ok = FALSE]

LimitOf(s, o) ==
    LET n == Len(s)
        st == IF o.off < 0 THEN 0 ELSE o.off
        en == IF o.cnt < 0 THEN n - 1 ELSE st + o.cnt - 1
        en2 == IF en >= n THEN n - 1 ELSE en
    IN  IF ~o.lim THEN s ELSE IF st >= n \/ st > en2 THEN <<>> ELSE SubSeq(s, st + 1, en2 + 1)

\* the first * of a pattern replaced by the element; <<>> when the pattern has none
HasStar(p) == \E i \in 1..Len(p) : p[i] = 42
Subst(p, e) == LET i == CHOOSE i \in 1..Len(p) : p[i] = 42 /\ \A j \in 1..(i - 1) : p[j] # 42
               IN  SubSeq(p, 1, i - 1) \o e \o SubSeq(p, i + 1, Len(p))
\* the string stored under the key a pattern names for element e, as <<value>>, or <<>> (missing, not a string, no *)
Lookup(d, p, e) == IF ~HasStar(p) THEN <<>>
                   ELSE LET k == Subst(p, e) IN IF Has(d, k) /\ d[k].ty = "string" THEN <<d[k].s>> ELSE <<>>

Sort(d, a) ==
    LET k == a[1]
        o == SortOpts(Tail(a), [ok |-> TRUE, desc |-> FALSE, alpha |-> FALSE, lim |-> FALSE, off |-> 0, cnt |-> -1, by |-> <<>>, gets |-> <<>>, store |-> <<>>])
        src == IF Ty(d, k) = "list" THEN d[k].l ELSE IF Ty(d, k) = "set" THEN SetToSeq(d[k].m) ELSE <<>>
        nosort == o.by # <<>> /\ ~HasStar(o.by[1])
        \* the sort key of an element: itself, or what the BY pattern names (a missing key counts as 0 / the empty string)
        weight(e) == IF o.by = <<>> THEN e ELSE LET w == Lookup(d, o.by[1], e) IN IF w = <<>> THEN (IF o.alpha THEN <<>> ELSE <<48>>) ELSE w[1]
        numeric == nosort \/ \A i \in 1..Len(src) : ParseI64(weight(src[i])).ok
        wless(x, y) == IF o.alpha THEN (IF weight(x) # weight(y) THEN BytesLess(weight(x), weight(y)) ELSE BytesLess(x, y))
                       ELSE LET c == NumCmp(ParseI64(weight(x)).num, ParseI64(weight(y)).num) IN IF c # 0 THEN c < 0 ELSE BytesLess(x, y)
        asc == IF nosort THEN src ELSE SortedBy(src, wless)
        sorted == IF o.desc /\ ~nosort THEN Rev(asc) ELSE asc
        ideal == LimitOf(sorted, o)
        \* the reply: per element one value per GET pattern (# = the element itself)
        getOne(e, p) == IF p = <<35>> THEN RBulk(e) ELSE LET v == Lookup(d, p, e) IN IF v = <<>> THEN RNil ELSE RBulk(v[1])
        flat == IF o.gets = <<>> THEN [i \in 1..Len(ideal) |-> RBulk(ideal[i])]
                ELSE [i \in 1..(Len(ideal) * Len(o.gets)) |-> getOne(ideal[((i - 1) \div Len(o.gets)) + 1], o.gets[((i - 1) % Len(o.gets)) + 1])]
        \* STORE: the result becomes the list dest (a nil is stored as the empty string); an empty result deletes dest
        stored == [i \in 1..Len(flat) |-> IF flat[i].t = "nil" THEN <<>> ELSE flat[i].s]
        \* the emulator only sorts when BY is given, and never applies LIMIT
        emuDv == (IF sorted # src \/ (~o.alpha /\ ~numeric) THEN {"D_SORT_WITHOUT_BY_DOES_NOT_SORT"} ELSE {})
                 \cup (IF o.lim /\ LimitOf(src, o) # src THEN {"D_SORT_LIMIT_IGNORED"} ELSE {})
        emuOn == emuDv # {} /\ emuDv \subseteq devs /\ o.by = <<>> /\ o.gets = <<>> /\ o.store = <<>>
    IN  IF Len(a) < 1 \/ ~o.ok THEN Fail(d, EArg)
        ELSE IF Ty(d, k) \in {"string", "hash"} THEN Fail(d, WT)
        ELSE IF Ty(d, k) = "set" /\ On("D_SORT_SET_PANICS") THEN ResD(d, [t |-> "dead"], "D_SORT_SET_PANICS")
        ELSE IF emuOn /\ (RBulks(src) # RBulks(ideal) \/ (~o.alpha /\ ~numeric)) THEN [Res(d, RBulks(src)) EXCEPT !.dv = emuDv]
        ELSE IF ~o.alpha /\ ~numeric THEN Fail(d, RErr("ERR"))
        ELSE IF o.store # <<>> THEN
             (IF stored = <<>> THEN Res(Del(d, o.store[1]), RInt(0))
              ELSE Res(Put(d, o.store[1], VList(stored, 0)), RInt(Len(stored))))
        ELSE Res(d, RArr(flat))

=============================================================================
