---------------------------- MODULE MC_expiry_txn ---------------------------
(* C07 "all times of observation": a command that is QUEUED before a key's deadline and EXECUTED after it.  The
   program  MULTI ; <any data command aimed at a> ; EXISTS a ; <300 ms pass> ; EXEC ; TTL a  from states in which a
   (every type) expires 150 ms after the start: at EXEC time the key is a missing key for every queued command,
   whatever was looked at or prepared when the command was queued. *)
EXTENDS MCTree

Now0 == 1000000
Soon == Now0 + 150
ValA == {VStr(x, Soon), VStr(N(5), Soon), VList(<<x, y>>, Soon), VHash((f :> x), Soon), VSet({x, y}, Soon)}
Dbs0 == UNION {{(ka :> va) : va \in ValA}, {(ka :> va) @@ (kb :> VList(<<x>>, 0)) : va \in ValA}, {(ka :> va) @@ (kb :> VStr(y, Soon)) : va \in ValA}}
ETStates == {WithDb0(InitServer({1}), d) : d \in Dbs0}
Queued == PerKey(ka, kb) \cup {C("RENAME", <<ka, B("c")>>), C("COPY", <<ka, B("c")>>), C("MGET", <<ka, kb>>), C("DBSIZE", <<>>), C("KEYS", <<W("*")>>),
                               C("LMOVE", <<kb, ka, W("LEFT"), W("RIGHT")>>), C("SMOVE", <<ka, kb, x>>), C("SUNIONSTORE", <<B("c"), ka>>), C("EXPIRE", <<ka, N(100)>>), C("PERSIST", <<ka>>)}
TickStep == <<0, <<300>>>>
ETVocab == {TickStep, <<1, C("MULTI", <<>>)>>, <<1, C("EXEC", <<>>)>>, <<1, C("EXISTS", <<ka>>)>>, <<1, C("TTL", <<ka>>)>>} \cup {<<1, q>> : q \in Queued}
ETOk(h, st) ==
    LET pos == Len(h) + 1
    IN  CASE pos = 1 -> st = <<1, C("MULTI", <<>>)>>
          [] pos = 2 -> st[1] = 1 /\ st[2] \in Queued
          [] pos = 3 -> st = <<1, C("EXISTS", <<ka>>)>>
          [] pos = 4 -> st = TickStep
          [] pos = 5 -> st = <<1, C("EXEC", <<>>)>>
          [] pos = 6 -> st = <<1, C("TTL", <<ka>>)>>
          [] OTHER -> FALSE
=============================================================================
