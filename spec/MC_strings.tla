----------------------------- MODULE MC_strings -----------------------------
(* Bounded model of the string/counter family (C02). *)
EXTENDS Universe

Keys == {ka, kb}
MaxI == B("9223372036854775807")
MinI == B("-9223372036854775808")
Now0 == 1000000
Fut == Now0 + 500000
StrU == {B(""), x, B("abc"), N(10), N(-1), MaxI, MinI, B("9223372036854775806"), B("-9223372036854775807"), B("0.5"), B("ab c")}
ValA == {VStr(s, 0) : s \in StrU} \cup {VStr(x, Fut), VStr(N(10), Fut), VList(<<x>>, 0), VHash((x :> x), 0)}
ValB == {VStr(x, 0), VStr(B("abd"), 0), VStr(N(3), Fut), VList(<<x>>, 0)}
Dbs0 == UNION {{(ka :> va) @@ (kb :> vb) : va \in ValA, vb \in ValB}, {(ka :> va) : va \in ValA}, {(kb :> vb) : vb \in ValB}, {EmptyDb}}
StrStates == {WithDb0(InitServer({1}), d) : d \in Dbs0}

\* INCRBYFLOAT on +-2^63 is numeric accuracy (float64 vs long double), not claimed
StrRelevant(s, cmd) == ~(CmdName(cmd) = "INCRBYFLOAT" /\ Len(cmd) >= 2 /\ cmd[2] \in DOMAIN s.dbs[0] /\ s.dbs[0][cmd[2]].ty = "string" /\ Len(s.dbs[0][cmd[2]].s) > 9)
SetOptU == { <<>>, <<W("NX")>>, <<W("XX")>>, <<W("GET")>>, <<W("nx")>>, <<W("KEEPTTL")>>, <<W("keepttl")>>,
             <<W("EX"), N(100)>>, <<W("px"), N(100000)>>, <<W("EXAT"), TMark(Fut)>>, <<W("PXAT"), MMark(Fut)>>,
             <<W("NX"), W("GET")>>, <<W("GET"), W("XX")>>, <<W("EX"), N(100), W("NX")>>, <<W("NX"), W("EX"), N(100)>>,
             <<W("XX"), W("KEEPTTL"), W("GET")>>, <<W("GET"), W("PX"), N(100000), W("XX")>>,
             <<W("NX"), W("XX")>>, <<W("EX"), N(0)>>, <<W("EX"), N(-1)>>, <<W("PX"), x>>, <<W("EX")>>,
             <<W("EX"), N(100), W("KEEPTTL")>>, <<W("EX"), N(10), W("PX"), N(10)>>, <<W("EXAT"), N(0)>>, <<W("PXAT"), N(-5)>>,
             <<W("EXAT"), N(5)>>, <<W("BOGUS")>>, <<W("GET"), W("GET")>>,
             <<W("XX"), W("GET"), W("KEEPTTL")>>, <<W("KEEPTTL"), W("XX"), W("GET")>>, <<W("GET"), W("EX"), N(100), W("NX")>>,
             <<W("KEEPTTL"), W("GET"), W("XX")>>, <<W("NX"), W("EX"), N(100), W("GET")>>, <<W("EX"), N(100), W("XX"), W("GET")>> }
Rng == {N(i) : i \in {-100, -4, -3, -2, -1, 0, 1, 2, 3, 100}}
Incs == {N(1), N(-1), N(0), N(5), N(2), N(-2), MaxI, MinI, B("9223372036854775797"), B("-9223372036854775807"), x, B("1.5"), B("")}

StrCmds ==
    UNION {
      {C("SET", <<k, v>> \o o) : k \in Keys, v \in {B("v")}, o \in SetOptU},
      {C("set", <<ka, B("")>>), C("SET", <<ka>>), C("SET", <<>>)},
      {C(nm, <<k, B("w")>>) : nm \in {"SETNX", "setnx", "SetNx", "GETSET", "APPEND", "append"}, k \in Keys},
      {C("APPEND", <<ka, B("")>>)},
      {C(nm, <<k, t, B("w")>>) : nm \in {"SETEX", "PSETEX", "setex"}, k \in {ka}, t \in {N(100000), N(0), N(-5), x}},
      {C(nm, <<k>>) : nm \in {"GET", "GETDEL", "GETEX", "STRLEN", "INCR", "DECR", "get", "incr"}, k \in Keys},
      {C("GETEX", <<k>> \o o) : k \in Keys, o \in {<<W("PERSIST")>>, <<W("EX"), N(100)>>, <<W("PX"), N(100000)>>, <<W("EXAT"), TMark(Fut + 1000)>>,
                                                    <<W("PXAT"), MMark(Fut + 1000)>>, <<W("persist")>>, <<W("EX"), N(0)>>, <<W("EX")>>, <<W("KEEPTTL")>>, <<W("EX"), N(1), W("PERSIST")>>}},
      {C("MGET", ks) : ks \in {<<ka>>, <<ka, kb>>, <<kb, B("c"), ka, ka>>}},
      {C(nm, kv) : nm \in {"MSET", "MSETNX", "msetnx", "mset"}, kv \in {<<ka, B("1")>>, <<ka, B("1"), kb, B("2")>>, <<B("c"), B("1"), ka, B("2")>>, <<B("c"), B("1"), B("d"), B("2")>>,
                                                                       <<B("c"), B("1"), B("c"), B("2")>>, <<ka, B("1"), kb>>, <<ka>>}},
      {C(nm, <<ka, i, j>>) : nm \in {"GETRANGE"}, i \in Rng, j \in Rng},
      {C("SUBSTR", <<ka, N(0), N(-1)>>), C("SUBSTR", <<kb, N(1), N(1)>>), C("GETRANGE", <<kb, N(0), N(-1)>>), C("GETRANGE", <<ka, x, N(1)>>), C("GETRANGE", <<ka, N(1)>>)},
      {C("SETRANGE", <<k, N(o), v>>) : k \in Keys, o \in {-1, 0, 1, 2, 5}, v \in {B(""), B("Z"), B("ZZ")}},
      {C("SETRANGE", <<ka, x, x>>), C("SETRANGE", <<ka, N(1)>>)},
      {C(nm, <<k, i>>) : nm \in {"INCRBY", "DECRBY"}, k \in Keys, i \in Incs},
      {C("INCRBYFLOAT", <<k, i>>) : k \in Keys, i \in {B("0.5"), B("-0.25"), B("3"), B("0"), x, B("")}},
      {C(nm, <<k1, k2>>) : nm \in {"LCS"}, k1 \in Keys \cup {B("c")}, k2 \in Keys},
      {C("LCS", <<ka, kb, W("LEN")>>), C("LCS", <<ka, B("c"), W("len")>>), C("LCS", <<kb, ka, W("LEN")>>), C("LCS", <<ka, kb, W("BOGUS")>>), C("LCS", <<ka>>)},
      {C(nm, <<>>) : nm \in {"GET", "MGET", "MSET", "INCR", "INCRBY", "APPEND", "STRLEN", "GETRANGE", "SETRANGE", "GETEX", "GETDEL", "GETSET", "SETNX", "SETEX"}},
      {C("GET", <<ka, kb>>), C("INCR", <<ka, kb>>), C("INCRBY", <<ka>>), C("APPEND", <<ka>>), C("STRLEN", <<ka, kb>>), C("GETSET", <<ka>>), C("SETNX", <<ka>>), C("SETEX", <<ka, N(5)>>)}
    }
=============================================================================
