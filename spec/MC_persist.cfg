SPECIFICATION PsSpec
CONSTANTS
  OpenDev = {}
  States <- PsStates
  CmdU <- PsCmds
  Relevant <- PsRelevant
  Fam = "persist"
ACTION_CONSTRAINT Emit
VIEW View
PROPERTY RestartRestores
CHECK_DEADLOCK FALSE
