------------------------------ MODULE MC_sets -------------------------------
(* Bounded model of the set family (C05): all families of three keys over a 2-member universe
   (plus wrong-typed keys) x every set command instance. *)
EXTENDS Universe

kc == B("c")
z == B("z")
Keys == {ka, kb, kc}
Mem == {x, y}
ValU == {VSet(m, 0) : m \in (SUBSET Mem) \ {{}}} \cup {VStr(x, 0), VList(<<x>>, 0)}
Dbs0 == UNION {[K -> ValU] : K \in SUBSET Keys}
SetStates == {WithDb0(InitServer({1}), d) : d \in Dbs0}

KeySeqs(n) == UNION {[1..m -> Keys] : m \in 1..n}

SetCmds ==
    UNION {
      {C(nm, <<k, m>>) : nm \in {"SADD", "SREM", "SISMEMBER", "sadd", "Srem"}, k \in Keys, m \in Mem \cup {z}},
      {C(nm, <<k, m1, m2>>) : nm \in {"SADD", "SREM", "SMISMEMBER"}, k \in {ka, kb}, m1 \in Mem \cup {z}, m2 \in Mem \cup {z}},
      {C("SMISMEMBER", <<k, m>>) : k \in Keys, m \in Mem},
      {C(nm, <<k>>) : nm \in {"SCARD", "SMEMBERS", "SRANDMEMBER", "scard"}, k \in Keys},
      {C("SRANDMEMBER", <<k, N(c)>>) : k \in Keys, c \in -3..3},
      {C("SRANDMEMBER", <<ka, B("9223372036854775807")>>), C("SRANDMEMBER", <<ka, x>>)},
      {C("SMOVE", <<s, d, m>>) : s \in Keys, d \in Keys, m \in Mem \cup {z}},
      {C(nm, ks) : nm \in {"SINTER", "SUNION", "SDIFF", "sinter"}, ks \in KeySeqs(3)},
      {C(nm, <<d>> \o ks) : nm \in {"SINTERSTORE", "SUNIONSTORE", "SDIFFSTORE"}, d \in Keys, ks \in KeySeqs(2)},
      {C(nm, <<d>> \o ks) : nm \in {"SINTERSTORE", "SUNIONSTORE", "SDIFFSTORE"}, d \in {ka}, ks \in [1..3 -> Keys]},
      {C("SINTERCARD", <<N(Len(ks))>> \o ks) : ks \in KeySeqs(3)},
      {C("SINTERCARD", <<N(Len(ks))>> \o ks \o <<B("LIMIT"), N(l)>>) : ks \in KeySeqs(2), l \in -1..3},
      {C("SINTERCARD", <<N(n), ka, kb>>) : n \in {0, 1, 3, -1}},
      {C("SINTERCARD", <<N(2), ka, kb, B("limit"), x>>), C("SINTERCARD", <<N(2), ka, kb, B("LIMIT")>>), C("SINTERCARD", <<x, ka>>)},
      {C(nm, <<>>) : nm \in {"SADD", "SCARD", "SMOVE", "SINTER", "SUNIONSTORE", "SINTERCARD"}},
      {C("SADD", <<ka>>), C("SCARD", <<ka, kb>>), C("SISMEMBER", <<ka>>), C("SMOVE", <<ka, kb>>), C("SUNIONSTORE", <<ka>>), C("SMEMBERS", <<ka, kb>>)}
    }
=============================================================================
