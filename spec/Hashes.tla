-------------------------------- MODULE Hashes ------------------------------
(***************************************************************************)
(* Hash commands on finite functions field -> value.                        *)
(***************************************************************************)
EXTENDS Store

HashOf(d, k) == IF Has(d, k) /\ d[k].ty = "hash" THEN d[k].h ELSE <<>>
Fields(d, k) == DOMAIN HashOf(d, k)
PutHash(d, k, h) == IF DOMAIN h = {} THEN Del(d, k) ELSE Put(d, k, VHash(h, ExpOf(d, k)))
HPut(h, f, v) == [x \in DOMAIN h \cup {f} |-> IF x = f THEN v ELSE h[x]]
HDelF(h, fs) == [x \in DOMAIN h \ fs |-> h[x]]
HPairs(h) == {<<f, h[f]>> : f \in DOMAIN h}

\* apply field/value pairs left to right
RECURSIVE HSetAll(_, _)
HSetAll(h, fv) == IF fv = <<>> THEN h ELSE HSetAll(HPut(h, fv[1], fv[2]), SubSeq(fv, 3, Len(fv)))
PairFields(fv) == {fv[2 * i - 1] : i \in 1..(Len(fv) \div 2)}

HSet(d, a, replyOk) ==
    LET k == a[1]
        fv == Tail(a)
        h == HashOf(d, k)
        h2 == HSetAll(h, fv)
    IN  IF Len(a) < 3 \/ Len(fv) % 2 # 0 THEN Fail(d, EArg)
        ELSE IF WrongType(d, k, "hash") THEN Fail(d, WT)
        ELSE Res(PutHash(d, k, h2), IF replyOk THEN ROk ELSE RInt(Cardinality(PairFields(fv) \ DOMAIN h)))

HSetNx(d, a) ==
    LET k == a[1]
        h == HashOf(d, k)
    IN  IF Len(a) # 3 THEN Fail(d, EArg)
        ELSE IF WrongType(d, k, "hash") THEN Fail(d, WT)
        ELSE IF a[2] \in DOMAIN h THEN
             (IF On("D_HSETNX_OVERWRITES") THEN ResD(PutHash(d, k, HPut(h, a[2], a[3])), RInt(0), "D_HSETNX_OVERWRITES")
              ELSE Res(d, RInt(0)))
        ELSE Res(PutHash(d, k, HPut(h, a[2], a[3])), RInt(1))

HGet(d, a) ==
    LET h == HashOf(d, a[1])
    IN  IF Len(a) # 2 THEN Fail(d, EArg)
        ELSE IF WrongType(d, a[1], "hash") THEN Fail(d, WT)
        ELSE IF a[2] \in DOMAIN h THEN Res(d, RBulk(h[a[2]])) ELSE Res(d, RNil)

HMGet(d, a) ==
    LET h == HashOf(d, a[1])
        fs == Tail(a)
    IN  IF Len(a) < 2 THEN Fail(d, EArg)
        ELSE IF WrongType(d, a[1], "hash") THEN Fail(d, WT)
        ELSE Res(d, RArr([i \in 1..Len(fs) |-> IF fs[i] \in DOMAIN h THEN RBulk(h[fs[i]]) ELSE RNil]))

HRead(d, a, what) ==
    LET h == HashOf(d, a[1])
    IN  IF Len(a) # 1 THEN Fail(d, EArg)
        ELSE IF WrongType(d, a[1], "hash") THEN Fail(d, WT)
        ELSE CASE what = "all" -> Res(d, RUMap(HPairs(h)))
               [] what = "keys" -> Res(d, RUSet(DOMAIN h))
               [] what = "vals" -> Res(d, RUBag(LET fs == SetToSeq(DOMAIN h) IN [i \in 1..Len(fs) |-> h[fs[i]]]))
               [] what = "len" -> Res(d, RInt(Cardinality(DOMAIN h)))

HExists(d, a) ==
    IF Len(a) # 2 THEN Fail(d, EArg)
    ELSE IF WrongType(d, a[1], "hash") THEN Fail(d, WT)
    ELSE Res(d, RInt(IF a[2] \in Fields(d, a[1]) THEN 1 ELSE 0))

HStrLen(d, a) ==
    LET h == HashOf(d, a[1])
    IN  IF Len(a) # 2 THEN Fail(d, EArg)
        ELSE IF WrongType(d, a[1], "hash") THEN Fail(d, WT)
        ELSE Res(d, RInt(IF a[2] \in DOMAIN h THEN Len(h[a[2]]) ELSE 0))

HDel(d, a) ==
    LET k == a[1]
        h == HashOf(d, k)
        fs == {a[i] : i \in 2..Len(a)}
    IN  IF Len(a) < 2 THEN Fail(d, EArg)
        ELSE IF WrongType(d, k, "hash") THEN Fail(d, WT)
        ELSE Res(PutHash(d, k, HDelF(h, fs)), RInt(Cardinality(fs \cap DOMAIN h)))

HIncrBy(d, a) ==
    LET k == a[1]
        f == a[2]
        h == HashOf(d, k)
        inc == ParseI64(a[3])
        old == IF f \in DOMAIN h THEN ParseI64(h[f]) ELSE [ok |-> TRUE, num |-> NumZero]
        sum == NumAdd(old.num, inc.num)
        \* the emulator compares the sum with the *increment* instead of the old value
        devOverflow == f \in DOMAIN h /\ ((NumCmp(sum, inc.num) > 0) # (NumCmp(inc.num, NumZero) > 0))
        sumB == NumToBytes(sum)
    IN  IF Len(a) # 3 \/ ~inc.ok THEN Fail(d, EArg)
        ELSE IF WrongType(d, k, "hash") THEN Fail(d, WT)
        ELSE IF ~old.ok THEN Fail(d, RErr("ERR"))
        ELSE IF ~InI64(sum) THEN Fail(d, RErr("ERR"))     \* (a true overflow is also caught by the emulator's test)
        ELSE IF On("D_HINCRBY_OVERFLOW_TEST_USES_INCREMENT") /\ devOverflow
             THEN ResD(d, RErr("ERR"), "D_HINCRBY_OVERFLOW_TEST_USES_INCREMENT")
        ELSE Res(PutHash(d, k, HPut(h, f, sumB)), RIntD(sumB))

HIncrByFloat(d, a) ==
    LET k == a[1]
        f == a[2]
        h == HashOf(d, k)
        inc == ParseQ(a[3])
        old == IF f \in DOMAIN h THEN ParseQ(h[f]) ELSE [ok |-> TRUE, q |-> 0]
        new == FormatQ(old.q + inc.q)
    IN  IF Len(a) # 3 \/ ~inc.ok THEN Fail(d, EArg)
        ELSE IF WrongType(d, k, "hash") THEN Fail(d, WT)
        ELSE IF ~old.ok THEN Fail(d, RErr("ERR"))
        ELSE Res(PutHash(d, k, HPut(h, f, new)), RDouble(new))

HRandField(d, a) ==
    LET k == a[1]
        h == HashOf(d, k)
        c == ArgInt(a[2])
        wv == Len(a) = 3 /\ Is(a[3], "WITHVALUES")
        n == IF c.v >= 0 THEN Min2(c.v, Cardinality(DOMAIN h)) ELSE (IF DOMAIN h = {} THEN 0 ELSE -c.v)
    IN  IF Len(a) < 1 \/ Len(a) > 3 \/ (Len(a) = 3 /\ ~wv) THEN Fail(d, EArg)
        ELSE IF Len(a) >= 2 /\ ~c.ok THEN Fail(d, EArg)
        ELSE IF WrongType(d, k, "hash") THEN Fail(d, WT)
        ELSE IF Len(a) = 1 THEN (IF DOMAIN h = {} THEN Res(d, RNil) ELSE Res(d, RRandOne(DOMAIN h)))
        ELSE IF wv THEN Res(d, RRandPairs(HPairs(h), n, c.v >= 0))
        ELSE Res(d, RRand(DOMAIN h, n, c.v >= 0))

=============================================================================
