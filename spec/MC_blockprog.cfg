SPECIFICATION PBSpec
CONSTANTS
  OpenDev = {}
  BStates <- NoStates
  BVocab <- NoStates
  BTreeOk <- AnyB
  BDepth = 0
  Fam = "blockprog"
  BProgs <- ProgsC11
ACTION_CONSTRAINT PBEmit
INVARIANT NoStuckWaiter
INVARIANT BlockedIsClean
PROPERTY PBOncePerStep
CHECK_DEADLOCK FALSE
