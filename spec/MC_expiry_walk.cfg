SPECIFICATION WSpec
CONSTANTS
  OpenDev = {}
  States <- ExpStates
  CmdU <- ExpCmds
  Relevant <- ExpRelevant
  Fam = "expiry"
  Vocab <- WVocab
  Depth = 8
  TreeOk <- AnyProg
  WalkOk <- WOk
INVARIANT WPrint
INVARIANT TWellFormed
CHECK_DEADLOCK FALSE
