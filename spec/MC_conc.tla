------------------------------- MODULE MC_conc ------------------------------
(* C08: contended vocabularies for concurrent connections.  TLC walks over this vocabulary are
   split into one program per connection; the programs are run concurrently on the real server
   and the recorded history is validated by Trace_Lin.  Every producer writes distinguishable
   values, read-modify-write and multi-key commands dominate. *)
EXTENDS MCWalk

kl == B("l")
kl2 == B("m")
kh == B("h")
ks == B("s")
ks2 == B("t")
kd == B("d")
V(c, n) == <<118, 48 + c, 48 + n>>          \* "v<c><n>": value tagged with its producer
ConcS0 == WithDb0(InitServer({1, 2, 3}),
                  (ka :> VStr(N(0), 0)) @@ (kb :> VStr(x, 0)) @@ (kl :> VList(<<x, y>>, 0)) @@ (kh :> VHash((f :> N(0)), 0)) @@ (ks :> VSet({x, y}, 0)))
ConcStates == {ConcS0}

PerConn(c) ==
    { C("INCR", <<ka>>), C("INCRBY", <<ka, N(10)>>), C("DECR", <<ka>>), C("GET", <<ka>>), C("GET", <<kb>>),
      C("APPEND", <<kb, V(c, 1)>>), C("STRLEN", <<kb>>), C("SETRANGE", <<kb, N(0), V(c, 2)>>), C("GETSET", <<ka, N(c)>>),
      C("MSET", <<ka, N(100 * c), kb, V(c, 3)>>), C("MSETNX", <<kd, V(c, 4), ka, N(1)>>), C("msetnx", <<kd, V(c, 4), B("e"), V(c, 5)>>),
      C("MGET", <<ka, kb>>), C("MGET", <<ka, kb, kd, B("e")>>),
      C("LPUSH", <<kl, V(c, 1)>>), C("RPUSH", <<kl, V(c, 2), V(c, 3)>>), C("LPOP", <<kl>>), C("RPOP", <<kl>>), C("LLEN", <<kl>>), C("LRANGE", <<kl, N(0), N(-1)>>),
      C("LMOVE", <<kl, kl2, W("LEFT"), W("RIGHT")>>), C("RPOPLPUSH", <<kl2, kl>>), C("LRANGE", <<kl2, N(0), N(-1)>>), C("LREM", <<kl, N(0), x>>),
      C("HINCRBY", <<kh, f, N(1)>>), C("HSET", <<kh, V(c, 1), V(c, 2)>>), C("HGETALL", <<kh>>), C("HDEL", <<kh, V(c, 1)>>), C("HLEN", <<kh>>),
      C("SADD", <<ks, V(c, 1)>>), C("SREM", <<ks, x>>), C("SCARD", <<ks>>), C("SMEMBERS", <<ks>>), C("SADD", <<ks2, V(c, 2), x>>),
      C("SUNIONSTORE", <<kd, ks, ks2>>), C("SINTERSTORE", <<kd, ks, ks2>>), C("SMEMBERS", <<kd>>), C("SCARD", <<kd>>), C("TYPE", <<kd>>),
      C("RENAME", <<kb, B("e")>>), C("RENAME", <<B("e"), kb>>), C("COPY", <<ka, B("e"), W("REPLACE")>>), C("GET", <<B("e")>>),
      C("DEL", <<ka, kb>>), C("DEL", <<kd, B("e")>>), C("EXISTS", <<ka, kb, kd, B("e")>>), C("DBSIZE", <<>>) }
(* "Hammer" programs: every connection repeats one read-modify-write (or multi-key) command many times
   on shared keys, fully pipelined - dense overlap of the critical sections.  A lost update or a torn
   multi-key write leaves no linearization (every reply of a counter is unique, so the search is linear). *)
Rep(cmd, n) == [j \in 1..n |-> cmd]
HammerSpecs ==
  << [name |-> "incr", chunk |-> 0, progs |-> [c \in {1, 2, 3, 4} |-> Rep(C("INCR", <<ka>>), 150)]],
     [name |-> "incrby-decr", chunk |-> 0, progs |-> [c \in {1, 2, 3, 4} |-> Rep(IF c % 2 = 0 THEN C("INCRBY", <<ka, N(3)>>) ELSE C("DECR", <<ka>>), 120)]],
     [name |-> "append", chunk |-> 0, progs |-> [c \in {1, 2, 3} |-> Rep(C("APPEND", <<kb, <<48 + c>> >>), 60)]],
     [name |-> "hincrby", chunk |-> 0, progs |-> [c \in {1, 2, 3, 4} |-> Rep(C("HINCRBY", <<kh, f, N(1)>>), 120)]],
     [name |-> "lpush-rpop", chunk |-> 4, progs |-> [c \in {1, 2, 3, 4} |-> Rep(IF c <= 2 THEN C("LPUSH", <<kl, V(c, 1)>>) ELSE C("RPOP", <<kl>>), 48)]],
     [name |-> "lmove", chunk |-> 4, progs |-> [c \in {1, 2, 3} |-> Rep(IF c = 1 THEN C("RPUSH", <<kl, V(c, 1)>>) ELSE IF c = 2 THEN C("LMOVE", <<kl, kl2, W("LEFT"), W("RIGHT")>>) ELSE C("LMOVE", <<kl2, kl, W("LEFT"), W("RIGHT")>>), 60)]],
     [name |-> "mset-mget", chunk |-> 4, progs |-> [c \in {1, 2, 3, 4} |-> Rep(IF c = 1 THEN C("MSET", <<ka, N(1), kb, N(1)>>) ELSE IF c = 2 THEN C("MSET", <<ka, N(2), kb, N(2)>>) ELSE C("MGET", <<ka, kb>>), 48)]],
     [name |-> "sadd-scard", chunk |-> 4, progs |-> [c \in {1, 2, 3} |-> Rep(IF c = 3 THEN C("SCARD", <<ks>>) ELSE C("SADD", <<ks, V(c, 1), V(c, 2)>>), 60)]],
     [name |-> "setrange-strlen", chunk |-> 4, progs |-> [c \in {1, 2, 3} |-> Rep(IF c = 3 THEN C("GET", <<kb>>) ELSE C("SETRANGE", <<kb, N(0), <<48 + c, 48 + c, 48 + c>> >>), 60)]],
     [name |-> "smove", chunk |-> 4, progs |-> [c \in {1, 2, 3} |-> Rep(IF c = 1 THEN C("SMOVE", <<ks, ks2, x>>) ELSE IF c = 2 THEN C("SMOVE", <<ks2, ks, x>>) ELSE C("SUNION", <<ks, ks2>>), 60)]],
     [name |-> "multi-exec", chunk |-> 4, progs |-> [c \in {1, 2, 3} |-> IF c = 3 THEN Rep(C("MGET", <<ka, kb>>), 48)
                                          ELSE [j \in 1..48 |-> CASE j % 4 = 1 -> C("MULTI", <<>>) [] j % 4 = 2 -> C("SET", <<ka, N(c)>>)
                                                                   [] j % 4 = 3 -> C("SET", <<kb, N(c)>>) [] OTHER -> C("EXEC", <<>>)]]],
     \* two transactions of four commands each running into each other, and an EXEC against CLIENT INFO (both take
     \* the exclusive lock of the data store)
     [name |-> "multi-exec-incr", chunk |-> 6, progs |-> [c \in {1, 2, 3} |-> IF c = 3 THEN Rep(C("MGET", <<ka, kb>>), 24)
                                          ELSE [j \in 1..48 |-> CASE j % 6 = 1 -> C("MULTI", <<>>) [] j % 6 = 2 -> C("INCR", <<ka>>) [] j % 6 = 3 -> C("INCR", <<kb>>)
                                                                   [] j % 6 = 4 -> C("INCR", <<ka>>) [] j % 6 = 5 -> C("INCR", <<kb>>) [] OTHER -> C("EXEC", <<>>)]]],
     [name |-> "multi-exec-clientinfo", chunk |-> 4, progs |-> [c \in {1, 2} |-> IF c = 2 THEN Rep(C("CLIENT", <<W("INFO")>>), 24)
                                          ELSE [j \in 1..48 |-> CASE j % 4 = 1 -> C("MULTI", <<>>) [] j % 4 = 2 -> C("INCR", <<ka>>)
                                                                   [] j % 4 = 3 -> C("INCR", <<kb>>) [] OTHER -> C("EXEC", <<>>)]]] >>
HammerInit == StateFullJ(WithDb0(InitServer({1, 2, 3, 4}),
                  (ka :> VStr(N(0), 0)) @@ (kb :> VStr(N(0), 0)) @@ (kl :> VList(<<x, y>>, 0)) @@ (kh :> VHash((f :> N(0)), 0)) @@ (ks :> VSet({x, y}, 0))))
ASSUME PrintT(ToJson([hammer |-> HammerSpecs, pre |-> HammerInit]))

(* "Big value" hammers (block-scaled, harness/scale.go): the programs below are written over values of a few
   bytes; the engine repeats every byte `scale` times, multiplies offsets, and divides lengths and bit counts
   again before the history is recorded, so Trace_Lin judges a run on values of 256 KiB .. 1 MiB with the very
   same Apply.  A reader that scans a stored value outside the lock (BITCOUNT, GETRANGE, BITOP, STRLEN ...)
   while a writer patches it is only observable on values of that size.  Arguments are block-aligned and in
   range (the homomorphism needs that). *)
AAAA == <<97, 97, 97, 97>>
OOOO == <<111, 111, 111, 111>>
Alt(c1, c2, n) == [j \in 1..n |-> IF j % 2 = 1 THEN c1 ELSE c2]
BigHammerSpecs ==
  << [name |-> "big-setrange-bitcount", chunk |-> 2, scale |-> 65536,
      progs |-> [c \in {1, 2, 3} |-> IF c = 1 THEN Alt(C("SETRANGE", <<kb, N(0), OOOO>>), C("SETRANGE", <<kb, N(0), AAAA>>), 24)
                                     ELSE Rep(C("BITCOUNT", <<kb>>), 40)]],
     [name |-> "big-setrange-inner", chunk |-> 2, scale |-> 65536,
      progs |-> [c \in {1, 2, 3} |-> IF c = 1 THEN Alt(C("SETRANGE", <<kb, N(1), <<111, 111>> >>), C("SETRANGE", <<kb, N(1), <<97, 97>> >>), 24)
                                     ELSE IF c = 2 THEN Rep(C("BITCOUNT", <<kb, N(0), N(-1)>>), 40)
                                     ELSE Rep(C("GETRANGE", <<kb, N(1), N(2)>>), 24)]],
     [name |-> "big-set-get", chunk |-> 2, scale |-> 65536,
      progs |-> [c \in {1, 2, 3} |-> IF c = 1 THEN Alt(C("SET", <<kb, OOOO>>), C("SET", <<kb, <<97, 97>> >>), 24)
                                     ELSE IF c = 2 THEN Alt(C("GET", <<kb>>), C("STRLEN", <<kb>>), 32)
                                     ELSE Rep(C("BITCOUNT", <<kb, N(0), N(1)>>), 40)]],
     [name |-> "big-append", chunk |-> 2, scale |-> 32768,
      progs |-> [c \in {1, 2, 3} |-> IF c = 1 THEN Rep(C("APPEND", <<kb, <<111>> >>), 16)
                                     ELSE IF c = 2 THEN Alt(C("STRLEN", <<kb>>), C("BITCOUNT", <<kb>>), 32)
                                     ELSE Rep(C("GETRANGE", <<kb, N(0), N(-1)>>), 16)]],
     [name |-> "big-bitop", chunk |-> 2, scale |-> 65536,
      progs |-> [c \in {1, 2, 3} |-> IF c = 1 THEN Alt(C("SETRANGE", <<kb, N(0), OOOO>>), C("SETRANGE", <<kb, N(0), AAAA>>), 24)
                                     ELSE IF c = 2 THEN Alt(C("BITOP", <<W("NOT"), kd, kb>>), C("BITCOUNT", <<kd>>), 32)
                                     ELSE Alt(C("COPY", <<kb, B("e"), W("REPLACE")>>), C("BITCOUNT", <<B("e")>>), 32)]],
     [name |-> "big-mset-mget", chunk |-> 2, scale |-> 65536,
      progs |-> [c \in {1, 2, 3} |-> IF c = 1 THEN Alt(C("MSET", <<kb, OOOO, kd, OOOO>>), C("MSET", <<kb, AAAA, kd, AAAA>>), 24)
                                     ELSE IF c = 2 THEN Rep(C("MGET", <<kb, kd>>), 16)
                                     ELSE Alt(C("GETSET", <<kb, AAAA>>), C("GETDEL", <<kd>>), 16)]] >>
BigInit == StateFullJ(WithDb0(InitServer({1, 2, 3}), (kb :> VStr(AAAA, 0))))
ASSUME PrintT(ToJson([bighammer |-> BigHammerSpecs, pre |-> BigInit]))

(* Forced interleavings (needs the verif hook ds.unlocked): connection 1 issues one command X and is held at the
   moment it first releases the data store lock; connection 2 runs a short conflicting program Y; connection 1 is
   released.  If X does its work in one critical section it has finished by then; a command that checks first and
   writes in a second critical section (MSETNX testing for existence outside the lock ...) is interleaved with at
   exactly the wrong moment, and the recorded history has no linearization. *)
kc == B("c")
GX == { C("MSETNX", <<kc, N(1), kd, N(1)>>), C("MSETNX", <<ka, N(1), kc, N(1)>>), C("MSET", <<ka, N(5), kb, N(5)>>), C("SETNX", <<kc, N(1)>>),
        C("SET", <<kc, N(1), W("NX")>>), C("SET", <<ka, N(9), W("XX"), W("GET")>>), C("INCR", <<ka>>), C("INCRBY", <<ka, N(10)>>), C("APPEND", <<kb, x>>),
        C("GETSET", <<ka, N(7)>>), C("GETDEL", <<ka>>), C("RENAME", <<ka, kc>>), C("RENAMENX", <<ka, kb>>), C("COPY", <<ka, kc>>),
        C("SMOVE", <<ks, ks2, x>>), C("LMOVE", <<kl, kl2, W("LEFT"), W("RIGHT")>>), C("RPOPLPUSH", <<kl, kl>>), C("SINTERSTORE", <<ks2, ks, ks>>),
        C("SUNIONSTORE", <<ks2, ks>>), C("SDIFFSTORE", <<ks, ks, ks2>>), C("LPUSHX", <<kl, x>>), C("LINSERT", <<kl, W("BEFORE"), y, B("z")>>),
        C("HSETNX", <<kh, f, N(5)>>), C("HINCRBY", <<kh, f, N(1)>>), C("SETRANGE", <<kb, N(0), x>>), C("LPOP", <<kl>>), C("DEL", <<ka, kb>>),
        C("EXISTS", <<ka, kb>>), C("MGET", <<ka, kb>>), C("BITOP", <<W("OR"), kc, ka, kb>>), C("LSET", <<kl, N(0), B("z")>>), C("SREM", <<ks, x>>),
        C("PERSIST", <<ka>>), C("LPOS", <<kl, y>>), C("STRLEN", <<ka>>),
        \* the destination is one of the sources: read-modify-write of one key by a multi-key command
        C("BITOP", <<W("OR"), ka, ka, kb>>), C("BITOP", <<W("XOR"), kb, ka, kb>>), C("BITOP", <<W("AND"), ka, ka, ka>>), C("BITOP", <<W("NOT"), ka, ka>>),
        C("SUNIONSTORE", <<ks, ks, ks2>>), C("SORT", <<kl, W("ALPHA"), W("STORE"), kl>>), C("COPY", <<ka, kb, W("REPLACE")>>), C("SETRANGE", <<ka, N(1), x>>),
        C("GETRANGE", <<kb, N(0), N(-1)>>), C("BITCOUNT", <<ka>>), C("SINTERCARD", <<N(2), ks, ks2>>) }
GY == { <<C("SET", <<ka, N(7)>>)>>, <<C("DEL", <<ka>>)>>, <<C("MSETNX", <<kc, N(2), kd, N(2)>>)>>, <<C("SET", <<kc, N(2)>>)>>, <<C("RPUSH", <<kl, B("q")>>)>>,
        <<C("LPOP", <<kl>>), C("LPOP", <<kl>>)>>, <<C("SADD", <<ks, B("q")>>), C("SREM", <<ks, x>>)>>, <<C("DEL", <<kl>>)>>, <<C("HSET", <<kh, f, N(9)>>)>>,
        <<C("SET", <<kb, B("zz")>>)>>, <<C("RENAME", <<ka, kd>>)>>, <<C("SADD", <<ks2, x>>)>>,
        <<C("SETBIT", <<ka, N(7), N(1)>>)>>, <<C("APPEND", <<ka, N(1)>>), C("APPEND", <<kb, N(1)>>)>>, <<C("SADD", <<ks, B("q")>>), C("SADD", <<ks2, B("r")>>)>> }
ASSUME PrintT(ToJson([gated |-> {[x |-> gx, y |-> gy] : gx \in GX, gy \in GY}, pre |-> HammerInit]))

(* Forced interleavings of TRANSACTIONS: connection 1 runs a prelude (WATCH ..., MULTI, queued commands) and its EXEC is
   the held command; connection 2 runs Y at the moment EXEC first lets go of the data store lock.  An EXEC that does all
   its work - the watch decision included - inside one exclusive section has finished by then.  One that decides about
   its watches first and takes the exclusive lock afterwards is caught between the two: it runs although the watched
   key has just been modified, and the history (EXEC replies an array computed from the new value) has no linearization. *)
Txn(pre, q) == pre \o <<C("MULTI", <<>>)>> \o q \o <<C("EXEC", <<>>)>>
GatedTxn ==
    {[x |-> Txn(<<C("WATCH", <<ka>>)>>, <<C("GET", <<ka>>)>>), y |-> yy] :
        yy \in { <<C("INCR", <<ka>>)>>, <<C("SET", <<ka, N(7)>>)>>, <<C("DEL", <<ka>>)>>, <<C("SET", <<kc, N(2)>>)>>, <<C("APPEND", <<kb, x>>)>>, <<C("SET", <<ka, N(0)>>)>> }}
    \cup {[x |-> Txn(<<C("WATCH", <<ka, kb>>)>>, <<C("INCR", <<ka>>), C("INCR", <<kb>>)>>), y |-> yy] :
        yy \in { <<C("SET", <<kb, N(5)>>)>>, <<C("MSET", <<ka, N(3), kb, N(3)>>)>>, <<C("RENAME", <<kb, kd>>)>>, <<C("GET", <<ka>>), C("GET", <<kb>>)>> }}
    \cup {[x |-> Txn(<<C("WATCH", <<kl>>)>>, <<C("LLEN", <<kl>>), C("LPOP", <<kl>>)>>), y |-> yy] :
        yy \in { <<C("RPUSH", <<kl, B("q")>>)>>, <<C("LPOP", <<kl>>)>>, <<C("DEL", <<kl>>)>>, <<C("LSET", <<kl, N(0), B("q")>>)>> }}
    \cup {[x |-> Txn(<<C("WATCH", <<kc>>)>>, <<C("SET", <<kc, N(1)>>)>>), y |-> yy] :
        yy \in { <<C("SET", <<kc, N(2)>>)>>, <<C("SETNX", <<kc, N(2)>>)>>, <<C("SET", <<kc, N(2)>>), C("DEL", <<kc>>)>>, <<C("RPUSH", <<kc, x>>)>> }}
    \cup {[x |-> Txn(<<C("WATCH", <<kh>>)>>, <<C("HGETALL", <<kh>>)>>), y |-> yy] :
        yy \in { <<C("HSET", <<kh, B("g"), N(1)>>)>>, <<C("HDEL", <<kh, f>>)>>, <<C("DEL", <<kh>>)>> }}
    \cup {[x |-> Txn(<<C("WATCH", <<ks>>)>>, <<C("SCARD", <<ks>>)>>), y |-> yy] :
        yy \in { <<C("SADD", <<ks, B("q")>>)>>, <<C("SREM", <<ks, x>>)>>, <<C("SMOVE", <<ks, ks2, x>>)>> }}
    \cup {[x |-> Txn(<<>>, <<C("INCR", <<ka>>), C("INCR", <<ka>>)>>), y |-> yy] : yy \in { <<C("SET", <<ka, N(7)>>)>>, <<C("GET", <<ka>>)>>, <<C("INCR", <<ka>>)>> }}
    \cup {[x |-> Txn(<<>>, <<C("SET", <<ka, N(1)>>), C("SET", <<kb, N(1)>>)>>), y |-> yy] : yy \in { <<C("MGET", <<ka, kb>>)>>, <<C("MSET", <<ka, N(2), kb, N(2)>>)>> }}
ASSUME PrintT(ToJson([gatedprog |-> GatedTxn, pre |-> HammerInit]))

ConcVocab == UNION {{<<c, m>> : m \in PerConn(c)} : c \in {1, 2, 3}}
=============================================================================
