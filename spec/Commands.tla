------------------------------ MODULE Commands ------------------------------
(***************************************************************************)
(* Exec1(db, now, cmd): what one command does to one database and what it   *)
(* replies - total over every command vector (unknown names, bad arity and  *)
(* bad arguments are replies, never undefined).  cmd is the argument vector *)
(* exactly as sent: a sequence of byte strings, cmd[1] the command name.    *)
(***************************************************************************)
EXTENDS Lists, Sets

Names == {"LPUSH", "RPUSH", "LPUSHX", "RPUSHX", "LPOP", "RPOP", "LLEN", "LINDEX", "LRANGE", "LSET",
          "LINSERT", "LREM", "LTRIM", "LPOS", "LMOVE", "RPOPLPUSH", "LMPOP",
          "SADD", "SREM", "SCARD", "SISMEMBER", "SMISMEMBER", "SMEMBERS", "SMOVE", "SRANDMEMBER",
          "SINTER", "SUNION", "SDIFF", "SINTERSTORE", "SUNIONSTORE", "SDIFFSTORE", "SINTERCARD"}

NameOf == [b \in {B(s) : s \in Names} |-> CHOOSE s \in Names : B(s) = b]
CmdName(cmd) == LET u == Upper(cmd[1]) IN IF u \in DOMAIN NameOf THEN NameOf[u] ELSE "?"

\* d : live view of the database
ExecLive(d, now, cmd) ==
    LET nm == CmdName(cmd)
        a == Tail(cmd)
    IN  CASE nm = "LPUSH" -> Push(d, a, TRUE, FALSE)
          [] nm = "RPUSH" -> Push(d, a, FALSE, FALSE)
          [] nm = "LPUSHX" -> Push(d, a, TRUE, TRUE)
          [] nm = "RPUSHX" -> Push(d, a, FALSE, TRUE)
          [] nm = "LPOP" -> Pop(d, a, TRUE)
          [] nm = "RPOP" -> Pop(d, a, FALSE)
          [] nm = "LLEN" -> LLen(d, a)
          [] nm = "LINDEX" -> LIndex(d, a)
          [] nm = "LRANGE" -> LRange(d, a)
          [] nm = "LSET" -> LSet(d, a)
          [] nm = "LINSERT" -> LInsert(d, a)
          [] nm = "LREM" -> LRem(d, a)
          [] nm = "LTRIM" -> LTrim(d, a)
          [] nm = "LPOS" -> LPos(d, a)
          [] nm = "LMOVE" -> LMove(d, a)
          [] nm = "RPOPLPUSH" -> RPopLPush(d, a)
          [] nm = "LMPOP" -> LMPop(d, a)
          [] nm = "SADD" -> SAdd(d, a)
          [] nm = "SREM" -> SRem(d, a)
          [] nm = "SCARD" -> SCard(d, a)
          [] nm = "SISMEMBER" -> SIsMember(d, a)
          [] nm = "SMISMEMBER" -> SMIsMember(d, a)
          [] nm = "SMEMBERS" -> SMembers(d, a)
          [] nm = "SMOVE" -> SMove(d, a)
          [] nm = "SRANDMEMBER" -> SRandMember(d, a)
          [] nm = "SINTER" -> SAlg("inter", d, a)
          [] nm = "SUNION" -> SAlg("union", d, a)
          [] nm = "SDIFF" -> SAlg("diff", d, a)
          [] nm = "SINTERSTORE" -> SAlgStore("inter", d, a)
          [] nm = "SUNIONSTORE" -> SAlgStore("union", d, a)
          [] nm = "SDIFFSTORE" -> SAlgStore("diff", d, a)
          [] nm = "SINTERCARD" -> SInterCard(d, a)
          [] OTHER -> Fail(d, RErr("ERR"))      \* unknown command

Exec1(db, now, cmd) ==
    IF cmd = <<>> THEN Fail(Live(db, now), RErr("ERR"))
    ELSE ExecLive(Live(db, now), now, cmd)

=============================================================================
