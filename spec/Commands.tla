------------------------------ MODULE Commands ------------------------------
(***************************************************************************)
(* Exec1(db, now, cmd): what one command does to one database and what it   *)
(* replies - total over every command vector (unknown names, bad arity and  *)
(* bad arguments are replies, never undefined).  cmd is the argument vector *)
(* exactly as sent: a sequence of byte strings, cmd[1] the command name.    *)
(***************************************************************************)
EXTENDS Keyspace, Sets, Hashes, Bitmaps

DataNames ==
    {"LPUSH", "RPUSH", "LPUSHX", "RPUSHX", "LPOP", "RPOP", "LLEN", "LINDEX", "LRANGE", "LSET",
     "LINSERT", "LREM", "LTRIM", "LPOS", "LMOVE", "RPOPLPUSH", "LMPOP",
     "SADD", "SREM", "SCARD", "SISMEMBER", "SMISMEMBER", "SMEMBERS", "SMOVE", "SRANDMEMBER",
     "SINTER", "SUNION", "SDIFF", "SINTERSTORE", "SUNIONSTORE", "SDIFFSTORE", "SINTERCARD",
     "HSET", "HMSET", "HSETNX", "HGET", "HMGET", "HGETALL", "HKEYS", "HVALS", "HLEN", "HEXISTS",
     "HSTRLEN", "HDEL", "HINCRBY", "HINCRBYFLOAT", "HRANDFIELD",
     "SET", "SETNX", "SETEX", "PSETEX", "GET", "GETSET", "GETDEL", "GETEX", "MGET", "MSET", "MSETNX",
     "APPEND", "STRLEN", "GETRANGE", "SUBSTR", "SETRANGE", "INCR", "DECR", "INCRBY", "DECRBY",
     "INCRBYFLOAT", "LCS",
     "DEL", "UNLINK", "EXISTS", "TOUCH", "TYPE", "RENAME", "RENAMENX", "COPY", "KEYS", "RANDOMKEY",
     "EXPIRE", "PEXPIRE", "EXPIREAT", "PEXPIREAT", "PERSIST", "TTL", "PTTL", "EXPIRETIME", "PEXPIRETIME",
     "SORT", "GETBIT", "SETBIT", "BITCOUNT", "BITPOS", "BITOP", "BITFIELD", "BITFIELD_RO"}

\* commands handled at the server level (sessions, databases, transactions), see Server.tla
ServerNames == {"SELECT", "FLUSHDB", "FLUSHALL", "DBSIZE", "PING", "ECHO", "MULTI", "EXEC", "DISCARD",
                "WATCH", "UNWATCH", "HELLO", "QUIT", "CLIENT", "BLPOP", "BRPOP", "BLMOVE", "BRPOPLPUSH", "BLMPOP"}

Names == DataNames \cup ServerNames
NameOf == [b \in {B(s) : s \in Names} |-> CHOOSE s \in Names : B(s) = b]
CmdName(cmd) == IF cmd = <<>> THEN "?" ELSE LET u == Upper(cmd[1]) IN IF u \in DOMAIN NameOf THEN NameOf[u] ELSE "?"

\* raw : the stored database, d : its live view
ExecLive(raw, d, now, cmd) ==
    LET nm == CmdName(cmd)
        a == Tail(cmd)
    IN  CASE nm = "LPUSH" -> Push(d, a, TRUE, FALSE)
          [] nm = "RPUSH" -> Push(d, a, FALSE, FALSE)
          [] nm = "LPUSHX" -> Push(d, a, TRUE, TRUE)
          [] nm = "RPUSHX" -> Push(d, a, FALSE, TRUE)
          [] nm = "LPOP" -> Pop(d, a, TRUE)
          [] nm = "RPOP" -> Pop(d, a, FALSE)
          [] nm = "LLEN" -> LLen(d, a)
          [] nm = "LINDEX" -> LIndex(d, a)
          [] nm = "LRANGE" -> LRange(d, a)
          [] nm = "LSET" -> LSet(d, a)
          [] nm = "LINSERT" -> LInsert(d, a)
          [] nm = "LREM" -> LRem(d, a)
          [] nm = "LTRIM" -> LTrim(d, a)
          [] nm = "LPOS" -> LPos(d, a)
          [] nm = "LMOVE" -> LMove(d, a)
          [] nm = "RPOPLPUSH" -> RPopLPush(d, a)
          [] nm = "LMPOP" -> LMPop(d, a)
          [] nm = "SADD" -> SAdd(d, a)
          [] nm = "SREM" -> SRem(d, a)
          [] nm = "SCARD" -> SCard(d, a)
          [] nm = "SISMEMBER" -> SIsMember(d, a)
          [] nm = "SMISMEMBER" -> SMIsMember(d, a)
          [] nm = "SMEMBERS" -> SMembers(d, a)
          [] nm = "SMOVE" -> SMove(d, a)
          [] nm = "SRANDMEMBER" -> SRandMember(d, a)
          [] nm = "SINTER" -> SAlg("inter", d, a)
          [] nm = "SUNION" -> SAlg("union", d, a)
          [] nm = "SDIFF" -> SAlg("diff", d, a)
          [] nm = "SINTERSTORE" -> SAlgStore("inter", d, a)
          [] nm = "SUNIONSTORE" -> SAlgStore("union", d, a)
          [] nm = "SDIFFSTORE" -> SAlgStore("diff", d, a)
          [] nm = "SINTERCARD" -> SInterCard(d, a)
          [] nm = "HSET" -> HSet(d, a, FALSE)
          [] nm = "HMSET" -> HSet(d, a, TRUE)
          [] nm = "HSETNX" -> HSetNx(d, a)
          [] nm = "HGET" -> HGet(d, a)
          [] nm = "HMGET" -> HMGet(d, a)
          [] nm = "HGETALL" -> HRead(d, a, "all")
          [] nm = "HKEYS" -> HRead(d, a, "keys")
          [] nm = "HVALS" -> HRead(d, a, "vals")
          [] nm = "HLEN" -> HRead(d, a, "len")
          [] nm = "HEXISTS" -> HExists(d, a)
          [] nm = "HSTRLEN" -> HStrLen(d, a)
          [] nm = "HDEL" -> HDel(d, a)
          [] nm = "HINCRBY" -> HIncrBy(d, a)
          [] nm = "HINCRBYFLOAT" -> HIncrByFloat(d, a)
          [] nm = "HRANDFIELD" -> HRandField(d, a)
          [] nm = "SET" -> Set(d, now, a)
          [] nm = "SETNX" -> SetNx(d, now, a, cmd[1] = B("setnx"))
          [] nm = "SETEX" -> SetEx(d, now, a, 1000)
          [] nm = "PSETEX" -> SetEx(d, now, a, 1)
          [] nm = "GET" -> Get(d, a)
          [] nm = "GETSET" -> GetSet(d, a)
          [] nm = "GETDEL" -> GetDel(d, a)
          [] nm = "GETEX" -> GetEx(d, now, a)
          [] nm = "MGET" -> MGet(d, a)
          [] nm = "MSET" -> MSet(d, a)
          [] nm = "MSETNX" -> MSetNx(d, a, cmd[1] = B("msetnx"))
          [] nm = "APPEND" -> AppendCmd(d, a)
          [] nm = "STRLEN" -> StrLen(d, a)
          [] nm = "GETRANGE" -> GetRange(d, a)
          [] nm = "SUBSTR" -> GetRange(d, a)
          [] nm = "SETRANGE" -> SetRange(d, a)
          [] nm = "INCR" -> Incr(d, a, 1)
          [] nm = "DECR" -> Incr(d, a, -1)
          [] nm = "INCRBY" -> IncrByCmd(d, a, 1)
          [] nm = "DECRBY" -> IncrByCmd(d, a, -1)
          [] nm = "INCRBYFLOAT" -> IncrByFloat(d, a)
          [] nm = "LCS" -> Lcs(d, a)
          [] nm = "DEL" -> Del_(d, a)
          [] nm = "UNLINK" -> Unlink(d, a)
          [] nm = "EXISTS" -> Exists(d, a)
          [] nm = "TOUCH" -> Touch(d, a)
          [] nm = "TYPE" -> Type(d, a)
          [] nm = "RENAME" -> Rename(raw, d, now, a, FALSE)
          [] nm = "RENAMENX" -> Rename(raw, d, now, a, TRUE)
          [] nm = "COPY" -> Copy(raw, d, now, a)
          [] nm = "KEYS" -> KeysCmd(d, a)
          [] nm = "RANDOMKEY" -> RandomKey(raw, d, now, a)
          [] nm = "EXPIRE" -> ExpireGeneric(d, now, a, "s")
          [] nm = "PEXPIRE" -> ExpireGeneric(d, now, a, "ms")
          [] nm = "EXPIREAT" -> ExpireGeneric(d, now, a, "ats")
          [] nm = "PEXPIREAT" -> ExpireGeneric(d, now, a, "atms")
          [] nm = "PERSIST" -> Persist(d, a)
          [] nm = "TTL" -> Ttl(d, now, a, "s")
          [] nm = "PTTL" -> Ttl(d, now, a, "ms")
          [] nm = "EXPIRETIME" -> ExpireTime(d, a, "s")
          [] nm = "PEXPIRETIME" -> ExpireTime(d, a, "ms")
          [] nm = "SORT" -> Sort(d, a)
          [] nm = "GETBIT" -> GetBit(d, a)
          [] nm = "SETBIT" -> SetBit(d, a)
          [] nm = "BITCOUNT" -> BitCount(d, a)
          [] nm = "BITPOS" -> BitPos(d, a)
          [] nm = "BITOP" -> BitOp(d, a)
          [] nm = "BITFIELD" -> BitField(d, a, FALSE)
          [] nm = "BITFIELD_RO" -> BitField(d, a, TRUE)
          [] OTHER -> Fail(d, RErr("ERR"))      \* unknown command

\* stored-but-expired entries the command did not touch stay stored (they are invisible)
KeepExpired(raw, now, d2) ==
    [k \in DOMAIN d2 \cup {x \in DOMAIN raw : ~IsLive(raw[x], now)} |-> IF k \in DOMAIN d2 THEN d2[k] ELSE raw[k]]

Exec1(db, now, cmd) ==
    LET res == ExecLive(db, Live(db, now), now, cmd)
    IN  [res EXCEPT !.db = KeepExpired(db, now, res.db)]

IsDataCmd(cmd) == CmdName(cmd) \in DataNames

=============================================================================
