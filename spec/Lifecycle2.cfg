SPECIFICATION LSpec
CONSTANTS
  Insts = {1, 2}
  Conns = {1, 2}
  Acts = {"idle", "blocked", "multi"}
  MaxSteps = 5
  Ports = {1, 2}
INVARIANT ClosedMeansDisconnected
INVARIANT PortConsistent
INVARIANT NoSharedData
PROPERTY StopIsLocal
ACTION_CONSTRAINT LEmit
CHECK_DEADLOCK FALSE
