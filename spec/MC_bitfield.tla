---------------------------- MODULE MC_bitfield -----------------------------
(* C18: BITFIELD / BITFIELD_RO for widths 1..64 (signed) and 1..63 (unsigned), aligned and unaligned
   offsets spanning 1..9 bytes, #-scaled offsets, values at the overflow boundaries, OVERFLOW WRAP|SAT|FAIL. *)
EXTENDS Universe
Keys == {ka}
ValA == {VStr(<<255, 255, 255, 255, 255, 255, 255, 255, 255, 255>>, 0), VStr(<<165, 1, 128>>, 0), VStr(<<0, 0, 0, 0, 0, 0, 0, 0, 0>>, 1500000), VList(<<x>>, 0)}
Dbs0 == {(ka :> va) : va \in ValA} \cup {EmptyDb}
BfStates == {WithDb0(InitServer({1}), d) : d \in Dbs0}

Widths == {1, 2, 7, 8, 9, 15, 16, 17, 31, 32, 33, 63, 64}
Enc(sg, w) == <<IF sg THEN 105 ELSE 117>> \o Itoa(w)
Encs == {Enc(TRUE, w) : w \in Widths} \cup {Enc(FALSE, w) : w \in Widths \ {64}}
Offs == {N(0), N(1), N(7), N(8), N(9), W("#0"), W("#1")}
\* boundary values of a type, as decimal text
P2(n) == NumPow2(n)
Wd(e) == ArgInt(Tail(e)).v
Bounds(e) == LET w == Wd(e)
                 sg == e[1] = 105
                 mx == IF sg THEN NumSub(P2(w - 1), IntToNum(1)) ELSE NumSub(P2(w), IntToNum(1))
                 mn == IF sg THEN NumNeg(P2(w - 1)) ELSE NumZero
             IN  {NumToBytes(v) : v \in {mx, mn, NumAdd(mx, IntToNum(1)), NumSub(mn, IntToNum(1)), NumZero, IntToNum(1), IntToNum(-1), IntToNum(100)} \cap {q \in {mx, mn, NumAdd(mx, IntToNum(1)), NumSub(mn, IntToNum(1)), NumZero, IntToNum(1), IntToNum(-1), IntToNum(100)} : InI64(q)}}
\* OVERFLOW SAT on 63/64-bit fields is not claimed: the emulator's saturation arithmetic there has further
\* defects beyond the two listed findings (KF-C18-03/04) that are not modelled individually
BfRelevant(s, cmd) == ~(\E q \in 1..(Len(cmd) - 1) : Is(cmd[q], "OVERFLOW") /\ Is(cmd[q + 1], "SAT"))
                      \/ ~(\E q \in 1..Len(cmd) : cmd[q] \in {Enc(TRUE, 63), Enc(TRUE, 64), Enc(FALSE, 63)})
Ovs == {<<>>, <<W("OVERFLOW"), W("WRAP")>>, <<W("OVERFLOW"), W("SAT")>>, <<W("OVERFLOW"), W("FAIL")>>, <<W("overflow"), W("fail")>>}

BfCmds ==
    UNION {
      {C("BITFIELD", <<ka, W("GET"), e, o>>) : e \in Encs, o \in Offs},
      {C("BITFIELD_RO", <<ka, W("GET"), e, o>>) : e \in {Enc(TRUE, 8), Enc(FALSE, 9), Enc(TRUE, 64)}, o \in Offs},
      UNION {{C("BITFIELD", <<ka>> \o ov \o <<W("SET"), e, o, v>>) : o \in {N(0), N(7), W("#1")}, v \in Bounds(e), ov \in Ovs} : e \in Encs},
      UNION {{C("BITFIELD", <<ka>> \o ov \o <<W("INCRBY"), e, o, v>>) : o \in {N(0), N(9)}, v \in {N(1), N(-1), N(0)} \cup (Bounds(e) \ {N(100)}), ov \in Ovs} : e \in Encs},
      {C("BITFIELD", <<ka, W("SET"), Enc(FALSE, 8), N(0), N(200), W("GET"), Enc(TRUE, 8), N(0), W("OVERFLOW"), W("SAT"), W("INCRBY"), Enc(FALSE, 8), N(0), N(100), W("GET"), Enc(FALSE, 16), N(0)>>),
       C("BITFIELD", <<ka, W("INCRBY"), Enc(TRUE, 5), N(3), N(10), W("OVERFLOW"), W("FAIL"), W("INCRBY"), Enc(TRUE, 5), N(3), N(10), W("INCRBY"), Enc(TRUE, 5), N(3), N(10)>>),
       C("BITFIELD", <<ka>>), C("BITFIELD", <<ka, W("GET"), W("u64"), N(0)>>), C("BITFIELD", <<ka, W("GET"), W("i65"), N(0)>>), C("BITFIELD", <<ka, W("GET"), W("x8"), N(0)>>),
       C("BITFIELD", <<ka, W("GET"), W("u8")>>), C("BITFIELD", <<ka, W("SET"), W("u8"), N(0), x>>), C("BITFIELD", <<ka, W("OVERFLOW"), W("BOGUS")>>),
       C("BITFIELD_RO", <<ka, W("SET"), W("u8"), N(0), N(1)>>), C("BITFIELD", <<ka, W("GET"), W("i0"), N(0)>>), C("BITFIELD", <<ka, W("get"), W("I8"), W("#2")>>)}
    }
=============================================================================
