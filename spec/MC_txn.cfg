SPECIFICATION TSpec
CONSTANTS
  OpenDev = {}
  States <- TxnStates
  Vocab <- TxnVocab
  TreeOk <- TxnOk
  Depth = 4
  CmdU = {}
  Relevant <- AllRelevant
  Fam = "txn"
ACTION_CONSTRAINT TEmit
INVARIANT TWellFormed
PROPERTY QueuedInvisible
PROPERTY ResetAfterExec
PROPERTY ExecAllOrNothing
PROPERTY SessionIsolation
PROPERTY WatchIff
CHECK_DEADLOCK FALSE
