SPECIFICATION WSpec
CONSTANTS
  OpenDev = {}
  States <- ListStates
  CmdU <- ListCmds
  Relevant <- AllRelevant
  Fam = "lists"
  Vocab <- WVocab
  Depth = 8
  TreeOk <- AnyProg
  WalkOk <- WOk
INVARIANT WPrint
INVARIANT TWellFormed
CHECK_DEADLOCK FALSE
