------------------------------ MODULE MC_sets2 ------------------------------
(* Second bounded model of the set family (C05): two keys over a 3-member universe, so that
   operands of different sizes that are not subsets of each other occur (|A| > |B|, B \ A # {}). *)
EXTENDS Universe

z == B("z")
Keys == {ka, kb}
Mem == {x, y, z}
ValU == {VSet(m, 0) : m \in (SUBSET Mem) \ {{}}} \cup {VStr(x, 0)}
Dbs0 == UNION {[K -> ValU] : K \in SUBSET Keys}
Set2States == {WithDb0(InitServer({1}), d) : d \in Dbs0}
kc == B("c")
KeySeqs(n) == UNION {[1..m -> Keys \cup {kc}] : m \in 1..n}

Set2Cmds ==
    UNION {
      {C(nm, ks) : nm \in {"SINTER", "SUNION", "SDIFF"}, ks \in KeySeqs(2)},
      {C(nm, <<d>> \o ks) : nm \in {"SINTERSTORE", "SUNIONSTORE", "SDIFFSTORE"}, d \in {ka, kc}, ks \in KeySeqs(2)},
      {C("SINTERCARD", <<N(Len(ks))>> \o ks) : ks \in KeySeqs(3)},
      {C("SINTERCARD", <<N(2), k1, k2, W("LIMIT"), N(l)>>) : k1 \in Keys, k2 \in Keys, l \in 0..3},
      {C("SMOVE", <<s, d, m>>) : s \in Keys, d \in Keys \cup {kc}, m \in Mem},
      {C("SRANDMEMBER", <<k, N(c)>>) : k \in {ka}, c \in {-5, -3, 2, 3, 4}},
      {C("SMISMEMBER", <<ka, x, z, y, x>>), C("SREM", <<ka, x, y, z>>), C("SREM", <<ka, z, z>>), C("SADD", <<ka, z, x, z>>)}
    }
=============================================================================
