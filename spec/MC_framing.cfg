SPECIFICATION FSpec
CONSTANTS
  OpenDev = {}
  States = {}
  CmdU = {}
  Relevant <- AllRelevant
  Fam = "framing"
  Streams <- FrStreams
  MaxCuts = 2
INVARIANT InOrder
INVARIANT SplitIndependent
ACTION_CONSTRAINT FEmit
CHECK_DEADLOCK FALSE
