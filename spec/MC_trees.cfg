SPECIFICATION Spec
CONSTANTS
  OpenDev = {}
  States <- TreeStates
  CmdU <- TreeCmds
  Relevant <- AllRelevant
  Fam = "trees"
ACTION_CONSTRAINT Emit
VIEW View
CHECK_DEADLOCK FALSE
