SPECIFICATION WSpec
CONSTANTS
  OpenDev = {}
  States <- StrStates
  CmdU <- StrCmds
  Relevant <- StrRelevant
  Fam = "strings"
  Vocab <- WVocab
  Depth = 8
  TreeOk <- AnyProg
  WalkOk <- WOk
INVARIANT WPrint
INVARIANT TWellFormed
CHECK_DEADLOCK FALSE
