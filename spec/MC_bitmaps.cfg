SPECIFICATION Spec
CONSTANTS
  OpenDev = {}
  States <- BmStates
  CmdU <- BmCmds
  Relevant <- AllRelevant
  Fam = "bitmaps"
ACTION_CONSTRAINT Emit
VIEW View
INVARIANT WellFormed
PROPERTY FailedInert
CHECK_DEADLOCK FALSE
