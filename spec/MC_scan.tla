------------------------------- MODULE MC_scan ------------------------------
(* generator configuration of ScanHist (tlc -simulate) *)
EXTENDS ScanHist
=============================================================================
