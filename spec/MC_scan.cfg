SPECIFICATION SSpec
CONSTANTS
  N = 120
  Depth = 260
  Counts = {1, 2, 3, 10, 1000}
  HistFile = "none.ndjson"
INVARIANT SPrint
CHECK_DEADLOCK FALSE
