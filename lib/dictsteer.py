"""Dict steering: the state graph of spec/Dict.tla (the emulator's hash table, transcribed) over pools of names
with their real SipHash bits is turned into store / remove programs that drive the real table through every
branch of store / remove; the programs get their expected replies and states from the command-level
specification (MCProg) and are replayed like any other case.

The hash function is re-implemented here only to CHOOSE names (and to give Dict.tla its HashBits); a wrong
choice can make the steering miss its target, it cannot make a check fail: verdicts come from the abstract
specification, and the predicted bucket order is compared with the server's (HSCAN order) only to report
whether the steering was on target (evidence field steering_on_target)."""
import json, os, random, shutil, collections

M64 = (1 << 64) - 1


def _rotl(x, b):
    return ((x << b) | (x >> (64 - b))) & M64


def siphash(data):
    """calcSipHash of sipHash.go: SipHash-2-4 with a zero key, the tail bytes assembled most significant first."""
    v0, v1, v2, v3 = 0x736f6d6570736575, 0x646f72616e646f6d, 0x6c7967656e657261, 0x7465646279746573

    def rnd():
        nonlocal v0, v1, v2, v3
        v0 = (v0 + v1) & M64; v1 = _rotl(v1, 13); v1 ^= v0; v0 = _rotl(v0, 32)
        v2 = (v2 + v3) & M64; v3 = _rotl(v3, 16); v3 ^= v2
        v0 = (v0 + v3) & M64; v3 = _rotl(v3, 21); v3 ^= v0
        v2 = (v2 + v1) & M64; v1 = _rotl(v1, 17); v1 ^= v2; v2 = _rotl(v2, 32)

    n = len(data)
    b = (n << 56) & M64
    end = (int((n - 1) / 8)) * 8          # Go integer division truncates toward zero
    i = 0
    while i < end:
        m = int.from_bytes(data[i:i + 8], 'little')
        v3 ^= m; rnd(); rnd(); v0 ^= m
        i += 8
    t = 0
    while i < n:
        t = ((t << 8) | data[i]) & M64
        i += 1
    b |= t
    v3 ^= b; rnd(); rnd(); v0 ^= b
    v2 ^= 0xff
    rnd(); rnd(); rnd(); rnd()
    return v0 ^ v1 ^ v2 ^ v3


HB = 8


def name_classes(prefix, limit=6000):
    """names prefix<i> by the low HB bits of their hash"""
    cls = collections.defaultdict(list)
    for i in range(limit):
        nm = '%s%d' % (prefix, i)
        cls[siphash(nm.encode()) & ((1 << HB) - 1)].append(nm)
    return cls


def make_pools(prefix, seed):
    """One pool per bucket pair of the 32-bucket table (a pair that collides in 16 buckets, 3 fillers), and
    deep pools whose third name also collides in 32 buckets (table grows to 64, or by two doublings at once)."""
    rnd = random.Random(seed)
    cls = name_classes(prefix)

    def pick(bits):
        return rnd.choice(cls[bits]) if cls.get(bits) else None

    pools = []
    for v in range(16):
        hi = rnd.randrange(8) << 5
        a, b = pick(v | hi), pick(v | 16 | (rnd.randrange(8) << 5))
        others = [x for x in range(16) if x != v]
        rnd.shuffle(others)
        fill = [pick(x | (rnd.randrange(16) << 4)) for x in others[:3]]
        names = [a, b] + fill
        if all(names):
            pools.append({'kind': 'pair%d' % v, 'names': names})
    for v in rnd.sample(range(16), 4):
        # a, b collide in 16 buckets; c collides with a in 16 and 32 buckets
        a, b, c = pick(v), pick(v | 16), pick(v | 32)
        # d collides with b in 16, 32 and 64 buckets: two or three doublings at once when only b is present
        d = pick(v | 16 | 128)
        others = [x for x in range(16) if x != v]
        rnd.shuffle(others)
        fill = [pick(x | (rnd.randrange(16) << 4)) for x in others[:1]]
        names = [a, b, c, d] + fill
        if all(names):
            pools.append({'kind': 'deep%d' % v, 'names': names})
    return pools


def dict_module(pool, maxnb=256, reset_when_empty=True):
    hb = [siphash(n.encode()) & ((1 << HB) - 1) for n in pool['names']]
    return ('---- MODULE MC_dict ----\nEXTENDS Dict\nPoolC == 1..%d\nHashC == <<%s>>\n====\n' % (len(hb), ', '.join(map(str, hb))),
            'SPECIFICATION DSpec\nCONSTANTS\n  Pool <- PoolC\n  HashBits <- HashC\n  HB = %d\n  MaxNb = %d\n  ResetWhenEmpty = %s\n'
            'INVARIANTS Refines OnePlace Findable SizeOk\nACTION_CONSTRAINT DEmit\nVIEW DView\nCHECK_DEADLOCK FALSE\n' % (HB, maxnb, 'TRUE' if reset_when_empty else 'FALSE'))


def skey(s):
    return (s['nb'], s['rem'], tuple(s['o']))


def plan(edges, rnd, per_label):
    """BFS over the emitted graph; for every label up to per_label target edges with a shortest op path to them."""
    adj = collections.defaultdict(list)
    for e in edges:
        adj[skey(e['pre'])].append(e)
    init = (16, 0, ())
    parent = {init: None}
    q = collections.deque([init])
    while q:
        u = q.popleft()
        for e in adj[u]:
            v = skey(e['post'])
            if v not in parent:
                parent[v] = (u, e)
                q.append(v)

    def path_to(u):
        ops = []
        while parent[u] is not None:
            u, e = parent[u]
            ops.append((e['op'], e['n']))
        return ops[::-1]

    bylabel = collections.defaultdict(list)
    for e in edges:
        if skey(e['pre']) in parent:
            bylabel[e['label']].append(e)
    targets = []
    for label, es in sorted(bylabel.items()):
        rnd.shuffle(es)
        # prefer edges whose pre-state is far from the start (more history) but keep one near one
        es.sort(key=lambda e: -len(e['pre']['o']))
        for e in es[:per_label]:
            targets.append({'label': label, 'ops': path_to(skey(e['pre'])) + [(e['op'], e['n'])], 'post': e['post']})
    return targets, len(parent), dict((k, len(v)) for k, v in bylabel.items())


def B(s):
    return list(s.encode())


def program(kind, names, ops, tail_rnd):
    """commands of one steering program for a hash ('hash'), a set ('set') or the keyspace of db 0 ('keys')"""
    steps = []

    def add(*args):
        steps.append({'c': 1, 'cmd': [B(a) for a in args]})

    for i, (op, n) in enumerate(ops):
        nm = names[n - 1]
        if kind == 'hash':
            add('HSET', 'h', nm, 'v%d' % i) if op == 'S' else add('HDEL', 'h', nm)
        elif kind == 'set':
            add('SADD', 's', nm) if op == 'S' else add('SREM', 's', nm)
        else:
            add('SET', nm, 'v%d' % i) if op == 'S' else add('DEL', nm)
    # observations through the other access paths of the table
    if kind == 'hash':
        add('HLEN', 'h'); add('HKEYS', 'h'); add('HMGET', 'h', *names)
        for nm in names:
            add('HEXISTS', 'h', nm)
        add('HSET', 'h', names[0], 'again'); add('HGETALL', 'h')
    elif kind == 'set':
        add('SCARD', 's'); add('SMISMEMBER', 's', *names)
        for nm in names:
            add('SISMEMBER', 's', nm)
        add('SADD', 's', names[0]); add('SMEMBERS', 's')
    else:
        add('DBSIZE'); add('EXISTS', *names); add('MGET', *names)
        add('SET', names[0], 'again'); add('DBSIZE')
    return steps


def scan_schedules(edges, rnd, per_label=2):
    """SCAN-family histories in which an iteration is in progress while the table is resized: for every grow /
    shrink edge of the Dict graph a shortest store / remove path to it, with p single-bucket SCAN calls inserted
    shortly before the resizing operation (the harness finishes the iteration afterwards)."""
    targets, _, _ = plan(edges, rnd, per_label)
    out = []
    for t in targets:
        if not (t['label'].startswith('shrink') or t['label'].startswith('grow')):
            continue
        ops = [{'op': 'add' if o == 'S' else 'del', 'e': n} for o, n in t['ops']]
        for p in (1, 2, 3, 4):
            for back in (0, 3):
                j = max(1, len(ops) - 1 - back)
                prog = ops[:j] + [{'op': 'step', 'count': 1}] * p + ops[j:]
                out.append({'label': t['label'], 'pause_after_calls': p, 'prog': prog})
                # the removal that makes the table shrink is a deadline that has passed (keyspace only: the key stays in
                # the table until somebody walks over it - possibly the SCAN itself, in the middle of its walk)
                if t['label'].startswith('shrink') and ops[-1]['op'] == 'del' and back == 0:
                    prog2 = ops[:j] + [{'op': 'step', 'count': 1}] * p + ops[j:-1] + [dict(ops[-1], how='expire')]
                    out.append({'label': t['label'] + ' by expiry', 'pause_after_calls': p, 'prog': prog2})
    return out
