"""Shared machinery of bin/check: scratch dirs, TLC runs, harness build, replay, verdicts, evidence."""
import json, os, random, re, shutil, subprocess, sys, tempfile, time, hashlib

VERIF = os.path.abspath(os.path.join(os.path.dirname(os.path.abspath(__file__)), '..'))
SPEC = os.path.join(VERIF, 'spec')
HARNESS = os.path.join(VERIF, 'harness')
REPO = os.environ.get('VERIF_REPO', '/repo')
# evidence/ and replays/ go to /verif unless a seeded-change run redirects them (bin/mutmatrix)
OUTDIR = os.environ.get('VERIF_OUTDIR') or os.path.dirname(os.path.dirname(os.path.abspath(__file__)))
NCPU = os.cpu_count() or 4

GOENV = dict(os.environ, GOFLAGS='-mod=mod', GOPROXY='off', GOSUMDB='off', GOTOOLCHAIN='local')


class Inconclusive(Exception):
    pass


def log(*a):
    print(*a, file=sys.stderr, flush=True)


# ------------------------------------------------------------------------------------------------
# known findings

def load_findings():
    p = os.environ.get('VERIF_KF') or os.path.join(VERIF, 'known_findings.json')   # (VERIF_KF: used while a fix is being prepared in a scratch worktree)
    if not os.path.exists(p):
        return []
    return json.load(open(p))['findings']


def open_devs():
    return sorted({f['deviation'] for f in load_findings() if f.get('status') == 'open' and f.get('deviation')})


def finding_for(dev):
    for f in load_findings():
        if f.get('deviation') == dev and f.get('status') == 'open':
            return f
    return None


# ------------------------------------------------------------------------------------------------
# scratch + builds

class Scratch:
    def __init__(self, keep=False):
        self.dir = tempfile.mkdtemp(prefix='verif-')
        self.keep = keep

    def path(self, *a):
        return os.path.join(self.dir, *a)

    def close(self):
        if not self.keep:
            shutil.rmtree(self.dir, ignore_errors=True)
        else:
            log('scratch kept at', self.dir)


def build_harness(sc, tags='verif'):
    """Build verifh from /verif/harness against the *current working tree* of the repository."""
    src = sc.path('harness')
    shutil.copytree(HARNESS, src)
    gomod = open(os.path.join(src, 'go.mod')).read().replace('=> /repo', '=> ' + REPO)
    open(os.path.join(src, 'go.mod'), 'w').write(gomod)
    shutil.copy(os.path.join(REPO, 'go.sum'), os.path.join(src, 'go.sum'))
    exe = sc.path('verifh')
    env = dict(GOENV, GOCACHE=os.environ.get('GOCACHE', os.path.expanduser('~/.cache/go-build')))
    p = subprocess.run(['go', 'build', '-tags', tags, '-o', exe, '.'], cwd=src, env=env,
                       stdout=subprocess.PIPE, stderr=subprocess.STDOUT, text=True)
    if p.returncode != 0:
        raise Inconclusive('harness/repository does not build:\n' + p.stdout[-3000:])
    return exe


# ------------------------------------------------------------------------------------------------
# TLC

def tla_set(strings):
    return '{' + ', '.join('"%s"' % s for s in strings) + '}'


def run_tlc(sc, module, cfg_text, workers=None, timeout=900, extra=(), java_opts=None, tag=None):
    """Run TLC on spec/<module>.tla with the given cfg text in a scratch copy of the spec directory.
    Returns (lines of output, stats dict)."""
    tag = tag or module
    d = sc.path('tlc-' + tag)
    if not os.path.isdir(d):
        shutil.copytree(SPEC, d)
    open(os.path.join(d, module + '.cfg'), 'w').write(cfg_text)
    out = os.path.join(d, 'tlc.out')
    env = dict(os.environ)
    if java_opts:
        env['JAVA_TOOL_OPTIONS'] = java_opts
    cmd = ['timeout', '-s', 'KILL', str(timeout), 'tlc', '-workers', str(workers or min(NCPU, 8)),
           '-metadir', os.path.join(d, 'md-' + tag), '-noGenerateSpecTE'] + list(extra) + [module + '.tla']
    t0 = time.time()
    with open(out, 'w') as f:
        p = subprocess.run(cmd, cwd=d, env=env, stdout=f, stderr=subprocess.STDOUT)
    dt = time.time() - t0
    stats = {'wall_s': round(dt, 2), 'rc': p.returncode, 'out': out}
    tail = []
    with open(out, errors='replace') as f:
        for line in f:
            if line.startswith('"{'):
                continue
            tail.append(line.rstrip('\n'))
            m = re.match(r'^(\d[\d,]*) states generated, (\d[\d,]*) distinct states found', line)
            if m:
                stats['generated'] = int(m.group(1).replace(',', ''))
                stats['distinct'] = int(m.group(2).replace(',', ''))
    stats['tail'] = tail[-40:]
    stats['ok'] = any('Model checking completed. No error has been found' in l for l in tail) or \
        any('Finished in' in l for l in tail) and p.returncode == 0
    stats['violated'] = [l for l in tail if ('is violated' in l or 'Invariant' in l and 'violated' in l or 'Error:' in l)]
    return out, stats


def tlc_json_lines(path):
    with open(path, errors='replace') as f:
        for line in f:
            if line.startswith('"{'):
                try:
                    yield json.loads(json.loads(line))
                except ValueError:
                    continue            # (a line cut short because TLC was stopped at its time limit)


def require_tlc_clean(stats, what):
    if stats['rc'] in (137, 124):
        raise Inconclusive('TLC timed out on ' + what)
    if stats['violated'] or not stats['ok']:
        raise Inconclusive('TLC did not complete cleanly on %s:\n%s' % (what, '\n'.join(stats['tail'][-25:])))


# ------------------------------------------------------------------------------------------------
# cases

def case_key(op):
    return json.dumps([op['pre'], [[s['c'], s['cmd']] for s in op['steps']]], sort_keys=True)


def _live_view(post):
    now = post.get('now', 0)
    ents = sorted((json.dumps(e, sort_keys=True) for e in post['ents'] if e['v'].get('exp', 0) == 0 or e['v']['exp'] > now))
    return [ents, sorted(json.dumps(c, sort_keys=True) for c in post.get('conn', []))]


def _same_expect(a, b):
    return a['r'] == b['r'] and _live_view(a['post']) == _live_view(b['post']) and a.get('deferred') == b.get('deferred')


def join_cases(ops):
    """Join the ideal and the deviated reading of every case into replay cases.  In a multi-step
    case the deviated expectation is attached only to the first step at which the two readings
    disagree (up to there both readings describe the same trajectory); the replay engine stops a
    case at a known deviation."""
    ideal, realp = {}, {}
    for op in ops:
        if 'steps' not in op:
            continue
        if op.get('dev'):
            # indexed by every prefix of the program: the deviated reading may not contain the whole ideal
            # program (a later step can be impossible there), but a replay stops at the first known deviation
            pre_s = json.dumps(op['pre'], sort_keys=True)
            acc = []
            for s in op['steps']:
                acc.append([s['c'], s['cmd']])
                realp.setdefault(pre_s + json.dumps(acc), s)
        else:
            ideal[case_key(op)] = op
    cases = []
    for k, op in ideal.items():
        steps = []
        pre_s = json.dumps(op['pre'], sort_keys=True)
        acc = []
        rsteps = []
        for s in op['steps']:
            acc.append([s['c'], s['cmd']])
            rsteps.append(realp.get(pre_s + json.dumps(acc)))
        rop = {'steps': rsteps}
        agree = rsteps[0] is not None
        diverged = False
        dvs = []
        for i, s in enumerate(op['steps']):
            st = {'c': s['c'], 'cmd': s['cmd'],
                  'ideal': {'r': s['r'], 'post': s['post'], 'rel': s.get('rel', []), 'tol': s.get('tol', [])}}
            if 'proto' in s:
                st['ideal']['proto'] = s['proto']
            if 'deferred' in s:
                st['ideal']['deferred'] = s['deferred']
            if agree and rop['steps'][i] is None:
                agree = False
            if agree:
                rs = rop['steps'][i]
                dvs = sorted(set(dvs) | set(rs['dv']))
                if diverged or not _same_expect(s, rs):
                    # from the first disagreement on, the deviated trajectory is carried along; the replay
                    # engine uses it only while the observations are consistent with it
                    diverged = True
                    if dvs:
                        st['real'] = {'r': rs['r'], 'post': rs['post'], 'rel': rs.get('rel', []),
                                      'tol': rs.get('tol', []), 'dv': dvs}
                        if 'proto' in rs:
                            st['real']['proto'] = rs['proto']
                        if 'deferred' in rs:
                            st['real']['deferred'] = rs['deferred']
            steps.append(st)
        cases.append({'fam': op.get('fam', ''), 'pre': op['pre'], 'steps': steps})
    cases.sort(key=lambda c: json.dumps([c['pre'], [s['cmd'] for s in c['steps']]], sort_keys=True))
    for i, c in enumerate(cases):
        c['id'] = i
    return cases


def walk_cases(ops):
    """Replay cases from MCWalk output: each step carries its ideal expectation and, where a known
    deviation applies to the step from the ideal pre-state, the deviated one."""
    cases = []
    for op in ops:
        if not op.get('walk'):
            continue
        steps = []
        for s in op['steps']:
            st = {'c': s['c'], 'cmd': s['cmd'],
                  'ideal': {'r': s['r'], 'post': s['post'], 'rel': s.get('rel', []), 'tol': s.get('tol', [])}}
            if 'proto' in s:
                st['ideal']['proto'] = s['proto']
            rl = s.get('real') or {}
            if rl.get('dv') and not _same_expect(s, rl):
                st['real'] = {'r': rl['r'], 'post': rl['post'], 'rel': rl.get('rel', []), 'tol': rl.get('tol', []),
                              'dv': sorted(rl['dv'])}
                if 'proto' in rl:
                    st['real']['proto'] = rl['proto']
            steps.append(st)
        cases.append({'fam': op.get('fam', ''), 'pre': op['pre'], 'steps': steps, 'walk': True})
    return cases


def b2s(arr):
    try:
        return bytes(arr).decode('latin-1')
    except Exception:
        return str(arr)


def cmd_text(cmd):
    if cmd and not isinstance(cmd[0], list):
        return '(%s ms pass)' % cmd[0]
    return ' '.join(json.dumps(b2s(a)) if (not a or any(c < 33 or c > 126 for c in a)) else b2s(a) for a in cmd)


def case_shape(c):
    """Coarse class of a case, used to stratify samples: command name, arity, reply type, pre types."""
    s = c['steps'][-1]
    name = b2s(s['cmd'][0]).upper() if s['cmd'] else ''
    tys = sorted({e['v']['ty'] + ('' if e['v']['exp'] == 0 else ('+past' if e['v']['exp'] <= c['pre'].get('now', 1000) else '+ttl'))
                  for e in c['pre']['ents']})
    return (name, len(s['cmd']), s['ideal']['r']['t'], s['ideal']['r'].get('code', ''), ','.join(tys), 'real' in s)


def sample_cases(cases, n, seed):
    """Seeded sample that keeps every case shape represented (all cases with a known deviation are kept)."""
    if len(cases) <= n:
        return list(cases)
    rnd = random.Random(seed)
    groups = {}
    for c in cases:
        groups.setdefault(case_shape(c), []).append(c)
    picked = []
    keys = sorted(groups.keys(), key=str)
    per = max(1, n // max(1, len(keys)))
    rest = []
    for k in keys:
        g = groups[k]
        rnd.shuffle(g)
        picked.extend(g[:per])
        rest.extend(g[per:])
    rnd.shuffle(rest)
    if len(picked) < n:
        picked.extend(rest[:n - len(picked)])
    return picked


def run_replay(exe, sc, cases, workers=None, port=21000, timeout_ms=2000, tag='replay'):
    port = int(os.environ.get('VERIF_PORT', port))
    cf = sc.path(tag + '-cases.jsonl')
    rf = sc.path(tag + '-results.jsonl')
    with open(cf, 'w') as f:
        for c in cases:
            f.write(json.dumps(c, separators=(',', ':')) + '\n')
    t0 = time.time()
    p = subprocess.run([exe, 'replay', '-cases', cf, '-out', rf, '-workers', str(workers or NCPU),
                        '-port', str(port), '-timeout', str(timeout_ms)],
                       stdout=subprocess.PIPE, stderr=subprocess.PIPE, text=True)
    if p.returncode != 0:
        raise Inconclusive('replay engine failed: ' + p.stderr[-2000:])
    results = [json.loads(l) for l in open(rf)]
    if len(results) != len(cases):
        raise Inconclusive('replay engine returned %d results for %d cases' % (len(results), len(cases)))
    return results, time.time() - t0


# ------------------------------------------------------------------------------------------------
# verdicts / evidence

class Verdict:
    def __init__(self, prop, tier, seed):
        self.prop, self.tier, self.seed = prop, tier, seed
        self.t0 = time.time()
        self.violations = []      # (path)
        self.known = {}           # deviation -> count
        self.known_example = {}
        self.inconclusive = []
        self.cov = {'states': 0, 'transitions': 0, 'traces_validated_against_impl': 0, 'evaluations': 0,
                    'distinct_nontrivial': 0, 'samples': [], 'tlc_runs': [], 'engines': {}}
        self.assumptions = []

    def add_tlc(self, name, stats):
        self.cov['states'] += stats.get('distinct', 0)
        self.cov['transitions'] += stats.get('generated', 0)
        self.cov['tlc_runs'].append({'model': name, 'distinct_states': stats.get('distinct', 0),
                                     'transitions': stats.get('generated', 0), 'wall_s': stats.get('wall_s')})

    def record_violation(self, case, result, engine='replay'):
        if len(self.violations) >= int(os.environ.get("VERIF_MAXREPORT", "25")):
            self.violations.append('(more)')        # counted, not written out
            return
        d = os.path.join(OUTDIR, 'replays')
        os.makedirs(d, exist_ok=True)
        h = hashlib.sha1(json.dumps(case, sort_keys=True).encode()).hexdigest()[:10]
        path = os.path.join(d, '%s-%s-%s.json' % (self.prop, self.seed, h))
        json.dump({'property': self.prop, 'engine': engine, 'case': case, 'result': result}, open(path, 'w'), indent=1)
        self.violations.append(path)
        print('VIOLATION property=%s replay=%s' % (self.prop, path), flush=True)
        f = result.get('fail') or {}
        log('  ', f.get('cmd', ''), '|', f.get('status', ''), '|', (f.get('detail') or '')[:400])

    def record_known(self, dev, example):
        self.known[dev] = self.known.get(dev, 0) + 1
        self.known_example.setdefault(dev, example)

    def absorb_replay(self, cases, results, engine="replay", max_report=int(os.environ.get("VERIF_MAXREPORT", "25"))):
        byid = {c['id']: c for c in cases}
        nontrivial = set()
        for r in results:
            c = byid[r['id']]
            self.cov['evaluations'] += 1
            if r['status'] in ('ok', 'known'):
                self.cov['traces_validated_against_impl'] += 1
                if r.get('changed') or r['status'] == 'known':
                    nontrivial.add(json.dumps([s['cmd'] for s in c['steps']]) + json.dumps(c['pre']['ents'], sort_keys=True))
            for k in r.get('known') or []:
                for dv in k.get('dv') or ['?']:
                    self.record_known(dv, k.get('cmd', '') + ' :: ' + (k.get('detail') or '')[:300])
            if r['status'] == 'ok' or r['status'] == 'known':
                continue
            if r['status'] == 'skip':
                continue
            if r['status'] in ('viol', 'crash', 'noreply'):
                if len(self.violations) < max_report:
                    self.record_violation(c, r, engine)
                else:
                    self.violations.append('(more)')
            else:
                self.inconclusive.append('%s case %s: %s' % (engine, r['id'], (r.get('fail') or {}).get('detail', r['status'])[:500]))
        self.cov['distinct_nontrivial'] += len(nontrivial)
        e = self.cov['engines'].setdefault(engine, {'cases': 0, 'ok': 0, 'known': 0, 'violations': 0})
        e['cases'] += len(results)
        e['ok'] += sum(1 for r in results if r['status'] == 'ok')
        e['known'] += sum(1 for r in results if r['status'] == 'known')
        e['violations'] += sum(1 for r in results if r['status'] in ('viol', 'crash', 'noreply'))
        nskip = sum(1 for r in results if r['status'] == 'skip')
        if nskip:
            e['skipped_timing'] = e.get('skipped_timing', 0) + nskip
            if nskip * 50 > len(results):
                self.inconclusive.append('%s: %d of %d cases skipped for timing' % (engine, nskip, len(results)))

    def add_samples(self, cases, n=3):
        for c in cases[:n]:
            s = c['steps'][-1]
            self.cov['samples'].append({'pre': [[e['db'], b2s(e['k']), e['v']['ty']] for e in c['pre']['ents']],
                                        'cmds': [cmd_text(x['cmd']) for x in c['steps']],
                                        'expected_reply': s['ideal']['r']})

    def finish(self, level='model_checking', rule='', exhaustive=False, extra=None):
        for dev, n in sorted(self.known.items()):
            f = finding_for(dev) or {}
            print('KNOWN-FINDING: property=%s %s %s: %s (%d cases; e.g. %s)' % (
                self.prop, f.get('id', '?'), dev, f.get('what', ''), n, self.known_example[dev][:200]), flush=True)
        cov = self.cov
        cov['rule'] = rule
        cov['exhaustive'] = exhaustive
        cov['known_findings_seen'] = self.known
        if extra:
            cov.update(extra)
        if not cov['samples']:
            cov['samples'] = ['(none)']
        ev = {'property_id': self.prop, 'tier': self.tier, 'seed': self.seed, 'level': level,
              'coverage': cov, 'assumptions': self.assumptions,
              'wall_s': round(time.time() - self.t0, 2), 'violations': len(self.violations)}
        os.makedirs(os.path.join(OUTDIR, 'evidence'), exist_ok=True)
        json.dump(ev, open(os.path.join(OUTDIR, 'evidence', self.prop + '.json'), 'w'), indent=1)
        if self.violations:
            return 1
        if self.inconclusive:
            for m in self.inconclusive[:10]:
                log('INCONCLUSIVE:', m)
            return 2
        return 0


# ------------------------------------------------------------------------------------------------

def main(argv):
    import props
    if not argv:
        log(__doc__)
        return 2
    if argv[0] == 'replay':
        return props.replay_path(argv[1])
    prop = argv[0]
    tier = os.environ.get('VERIF_TIER', 'quick')
    keep = False
    i = 1
    while i < len(argv):
        if argv[i] == '--tier':
            tier = argv[i + 1]
            i += 2
        elif argv[i] == '--keep':
            keep = True
            i += 1
        else:
            log('unknown argument', argv[i])
            return 2
    seed = int(os.environ.get('VERIF_SEED', '1'))
    if prop not in props.CHECKS:
        log('no check for', prop)
        return 2
    sc = Scratch(keep)
    try:
        return props.CHECKS[prop](sc, tier, seed)
    except Inconclusive as e:
        log('INCONCLUSIVE:', e)
        return 2
    finally:
        sc.close()


# ------------------------------------------------------------------------------------------------
# E2: concurrent histories validated by TLC (Trace_Lin)

def walks_to_conc_cases(walks, mode_cycle=('rr', 'pipe')):
    """Split each TLC walk (one interleaving) into one program per connection."""
    cases = []
    for n, w in enumerate(walks):
        progs = {}
        for s in w['steps']:
            if s['c'] == 0:
                continue
            progs.setdefault(str(s['c']), []).append(s['cmd'])
        # connection ids stay contiguous (a connection that got no step of this walk has an empty program): the
        # histories address operations by connection number
        for c_ in range(1, max([int(k) for k in progs] or [1]) + 1):
            progs.setdefault(str(c_), [])
        cases.append({'id': n, 'pre': w['pre'], 'progs': progs, 'mode': mode_cycle[n % len(mode_cycle)]})
    return cases


def run_conc(exe, sc, cases, workers=4, port=22000, timeout_ms=3000, tag='conc'):
    port = int(os.environ.get('VERIF_PORT', port)) + 500
    cf = sc.path(tag + '-cases.jsonl')
    rf = sc.path(tag + '-hist.jsonl')
    with open(cf, 'w') as f:
        for c in cases:
            f.write(json.dumps(c, separators=(',', ':')) + '\n')
    p = subprocess.run([exe, 'conc', '-cases', cf, '-out', rf, '-workers', str(workers), '-port', str(port),
                        '-timeout', str(timeout_ms)], stdout=subprocess.PIPE, stderr=subprocess.PIPE, text=True)
    if p.returncode != 0:
        raise Inconclusive('conc engine failed: ' + p.stderr[-2000:])
    hs = [json.loads(l) for l in open(rf)]
    if len(hs) != len(cases):
        raise Inconclusive('conc engine returned %d histories for %d cases' % (len(hs), len(cases)))
    hs.sort(key=lambda h: h['id'])
    return hs


UNDECIDED = []     # ids of histories whose linearization search did not finish within the budget (this run)


def _validate_chunk(sc, hists, devs, module, tag, timeout):
    """One TLC process over a chunk of histories.  Returns (accepted ids, rejected [(history, event)], stats)."""
    remaining = list(hists)
    rejected, stats_all, accepted = [], [], []
    rounds = 0
    while remaining:
        rounds += 1
        d = sc.path('tlc-%s-%d' % (tag, rounds))
        shutil.copytree(SPEC, d)
        with open(os.path.join(d, 'hist.ndjson'), 'w') as f:
            for hrec in remaining:
                f.write(json.dumps(hrec, separators=(',', ':')) + '\n')
        cfg = open(os.path.join(SPEC, module + '.cfg')).read().replace('OpenDev = {}', 'OpenDev = ' + tla_set(devs))
        open(os.path.join(d, module + '.cfg'), 'w').write(cfg)
        out = os.path.join(d, 'tlc.out')
        env = dict(os.environ, JAVA_TOOL_OPTIONS='-Dtlc2.tool.queue.IStateQueue=StateDeque -Xmx3g')
        t0 = time.time()
        with open(out, 'w') as f:
            p = subprocess.run(['timeout', '-s', 'KILL', str(timeout), 'tlc', '-workers', '1', '-metadir', os.path.join(d, 'md'),
                                '-noGenerateSpecTE', module + '.tla'], cwd=d, env=env, stdout=f, stderr=subprocess.STDOUT)
        txt = open(out, errors='replace').read()
        st = {'wall_s': round(time.time() - t0, 2), 'histories': len(remaining)}
        m = re.search(r'(\d[\d,]*) states generated, (\d[\d,]*) distinct states found', txt)
        if m:
            st['generated'] = int(m.group(1).replace(',', ''))
            st['distinct'] = int(m.group(2).replace(',', ''))
        stats_all.append(st)
        shutil.rmtree(os.path.join(d, 'md'), ignore_errors=True)
        if p.returncode in (137, 124):
            # the search of some history of this batch is too large: split the batch; a single history that cannot
            # be decided within the budget is set aside as undecided (neither accepted nor rejected)
            if len(remaining) == 1:
                UNDECIDED.append(remaining[0]['id'])
                break
            half = len(remaining) // 2
            for part in (remaining[:half], remaining[half:]):
                a2, r2, s2 = _validate_chunk(sc, part, devs, module, '%s-s%d' % (tag, len(stats_all) + len(part)), max(150, timeout // 2))
                accepted.extend(a2)
                rejected.extend(r2)
                stats_all.extend(s2)
            break
        if 'Invariant NotAllAccepted is violated' in txt:
            accepted.extend(h['id'] for h in remaining)
            break
        mk = re.search(r'<<"MARK", (\d+)>>', txt)
        if not mk or 'Model checking completed' not in txt:
            # TLC could not evaluate some history of the batch (a reply of a shape the specification cannot even
            # compare with what the command returns): isolate it by splitting; alone, it counts as rejected
            if len(remaining) == 1:
                err_line = next((l for l in txt.splitlines() if l.startswith('Error:')), 'TLC evaluation error')
                rejected.append((remaining[0], 0))
                stats_all.append({'evaluation_error': err_line[:200]})
                break
            half = len(remaining) // 2
            for part in (remaining[:half], remaining[half:]):
                a2, r2, s2 = _validate_chunk(sc, part, devs, module, '%s-e%d' % (tag, len(stats_all) + len(part)), timeout)
                accepted.extend(a2)
                rejected.extend(r2)
                stats_all.extend(s2)
            break
        mark = int(mk.group(1))
        hi, ev = mark // 100000, mark % 100000
        if hi < 1 or hi > len(remaining):
            raise Inconclusive('unexpected progress mark %d' % mark)
        bad = remaining[hi - 1]
        rejected.append((bad, ev))
        accepted.extend(h['id'] for h in remaining[:hi - 1])
        remaining = remaining[hi:]
        if len(rejected) > 5:
            break
    return accepted, rejected, stats_all


def validate_histories(sc, hists, devs, module='Trace_Lin', tag='lin', timeout=600, procs=8):
    """TLC decides each recorded history (several single-worker TLC processes side by side, each over a
    chunk of the histories: the depth-first trace search needs -workers 1)."""
    from concurrent.futures import ThreadPoolExecutor
    if not hists:
        return [], [], []
    del UNDECIDED[:]
    n = max(1, min(procs, len(hists) // 4 or 1))
    chunks = [hists[i::n] for i in range(n)]
    accepted, rejected, stats = [], [], []
    with ThreadPoolExecutor(max_workers=n) as ex:
        futs = [ex.submit(_validate_chunk, sc, ch, devs, module, '%s-%d' % (tag, k), timeout) for k, ch in enumerate(chunks)]
        for fu in futs:
            a, r, s_ = fu.result()
            accepted.extend(a)
            rejected.extend(r)
            stats.extend(s_)
    if len(UNDECIDED) > max(2, len(hists) // 50):
        raise Inconclusive('the linearization search of %d of %d histories did not finish within the budget' % (len(UNDECIDED), len(hists)))
    if UNDECIDED:
        stats.append({'undecided_histories': len(UNDECIDED)})
    return accepted, rejected, stats
