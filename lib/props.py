"""Per-property checks (what bin/check <id> runs)."""
import json, os, sys
from vcheck import *


def mc_cfg(name, devs):
    txt = open(os.path.join(SPEC, name + '.cfg')).read()
    return txt.replace('OpenDev = {}', 'OpenDev = ' + tla_set(devs))


def transition_check(sc, tier, seed, prop, models, quick_n, rule, thorough_n=None, level='model_checking',
                     assumptions=(), port=21000, walks=(), walk_n=(300, 3000), walk_depth=8, steer=(), extra_stage=None):
    """TLC enumerates every (state x command) transition of the bounded family models, checks the
    property invariants on the ideal reading, and every transition (a seeded, shape-stratified sample
    in the quick tier) is replayed on the real server over TCP with a full-state comparison."""
    v = Verdict(prop, tier, seed)
    exe = build_harness(sc)
    devs = open_devs()
    allcases = []
    from concurrent.futures import ThreadPoolExecutor
    with ThreadPoolExecutor(max_workers=max(1, len(models))) as ex:
        runs = list(ex.map(lambda mod: run_tlc(sc, mod, mc_cfg(mod, devs), timeout=1500, workers=max(4, NCPU // max(1, len(models)))), models))
    for module, (out, st) in zip(models, runs):
        require_tlc_clean(st, module)
        v.add_tlc(module, st)
        cases = join_cases(tlc_json_lines(out))
        for c in cases:
            c['model'] = module
        allcases.extend(cases)
    for i, c in enumerate(allcases):
        c['id'] = i
    total = len(allcases)
    n = quick_n if tier == 'quick' else (thorough_n or total)
    # every model gets an equal share of the budget (small models are then replayed completely)
    chosen = []
    bymodel = {}
    for c in allcases:
        bymodel.setdefault(c['model'], []).append(c)
    left, models_left = n, len(bymodel)
    for mname, cs in sorted(bymodel.items(), key=lambda kv: len(kv[1])):
        share = max(1, left // models_left)
        part = sample_cases(cs, share, seed)
        chosen.extend(part)
        left -= len(part)
        models_left -= 1
    results, dt = run_replay(exe, sc, chosen, port=port)
    v.absorb_replay(chosen, results)
    v.add_samples(chosen, 3)
    # random multi-step walks (tlc -simulate), each step evaluated under both readings
    nwalk = 0
    for wmod in walks:
        num = walk_n[0] if tier == 'quick' else walk_n[1]
        cfg = mc_cfg(wmod, devs).replace('Depth = 8', 'Depth = %d' % walk_depth)
        # the simulation runs in batches of the quick tier's size, each with its own seed and time limit: a batch
        # that gets stuck on one expensive walk (strings that keep doubling ...) is cut off and what it has printed
        # is used; the first batch must complete
        wcs, nb, wall = [], 0, 0.0
        while len(wcs) < num and nb < 2 * ((num + walk_n[0] - 1) // walk_n[0]):
            out, st = run_tlc(sc, wmod, cfg, workers=1, timeout=240, tag='%s-b%d' % (wmod, nb),
                              extra=['-simulate', 'num=%d' % min(walk_n[0], num - len(wcs)), '-depth', str(3 * walk_depth + 5), '-seed', str(seed + 7919 * nb)])
            wall += st['wall_s']
            part = walk_cases(tlc_json_lines(out))
            if st['violated'] or (st['rc'] != 0 and (nb == 0 or st['rc'] not in (137, 124))):
                raise Inconclusive('TLC simulation failed on %s:\n%s' % (wmod, '\n'.join(st['tail'][-20:])))
            wcs.extend(part)
            nb += 1
        st = dict(st, wall_s=round(wall, 2))
        if not wcs:
            raise Inconclusive('TLC simulation of %s produced no walk' % wmod)
        for i, c in enumerate(wcs):
            c['id'] = i
        wres, wdt = run_replay(exe, sc, wcs, port=port, tag='walks-' + wmod)
        v.absorb_replay(wcs, wres, engine='walks')
        v.add_samples(wcs[:1], 1)
        v.cov['tlc_runs'].append({'model': wmod + ' (simulation)', 'walks': len(wcs), 'depth': walk_depth, 'wall_s': st['wall_s']})
        nwalk += len(wcs)
    if steer:
        scs, sinfo = dict_steer_cases(sc, tier, seed, steer, v)
        sres, sdt = run_replay(exe, sc, scs, port=port, tag='steer')
        v.absorb_replay(scs, sres, engine='dict_steering')
        v.cov['engines']['dict_steering'].update(sinfo)
    if extra_stage:
        extra_stage(v, sc, exe, tier, seed)
    v.assumptions = list(assumptions) + [
        'trusted observers/constructors: SET RPUSH HSET SADD PEXPIREAT SELECT FLUSHALL / KEYS TYPE GET LRANGE LLEN LINDEX HGETALL SMEMBERS PEXPIRETIME (each is itself a target of transition cases; a loader whose result does not project to the pre-state is reported, not skipped)',
        'error replies compared by error code only; unordered collections as multisets; random replies by membership/size/distinctness',
        'bounded universe: see the MC_*.tla module(s) named in tlc_runs',
    ]
    return v.finish(level=level, rule=rule, exhaustive=(len(chosen) == total),
                    extra={'transitions_enumerated_by_tlc': total, 'transitions_replayed': len(chosen),
                           'walks_replayed': nwalk, 'replay_wall_s': round(dt, 1)})


def dict_steer_cases(sc, tier, seed, kinds, v):
    """Programs that drive the emulator's hash table (hashes, sets, the keyspace) through every branch of
    store / remove, planned on the state graph of Dict.tla and given their expectations by MCProg."""
    import random as _r, shutil as _sh
    import dictsteer as ds
    from concurrent.futures import ThreadPoolExecutor
    rnd = _r.Random(seed)
    pools = ds.make_pools('f', seed)
    pairs = [p for p in pools if p['kind'].startswith('pair')]
    deeps = [p for p in pools if p['kind'].startswith('deep')]
    if tier == 'quick':
        deeps = deeps[:1]
    maxlen = 130 if tier == 'quick' else 420
    per_label = 1 if tier == 'quick' else 3

    def explore(pool):
        mod, cfg = ds.dict_module(pool, 64 if tier == 'quick' else 256, reset_when_empty=('keys' not in kinds))
        tag = 'dict-' + pool['kind']
        d = sc.path('tlc-' + tag)
        if not os.path.isdir(d):
            _sh.copytree(SPEC, d)
        open(os.path.join(d, 'MC_dict.tla'), 'w').write(mod)
        return run_tlc(sc, 'MC_dict', cfg, tag=tag, workers=2, timeout=1200)

    use = pairs + deeps
    with ThreadPoolExecutor(max_workers=NCPU // 2) as ex:
        runs = list(ex.map(explore, use))
    progs, labels, nstates, ngen = [], {}, 0, 0
    for pool, (out, st) in zip(use, runs):
        require_tlc_clean(st, 'MC_dict ' + pool['kind'])
        edges = list(tlc_json_lines(out))
        targets, ns, lab = ds.plan(edges, rnd, per_label)
        nstates += ns
        ngen += st.get('generated', 0)
        for t in targets:
            if len(t['ops']) > maxlen:
                continue
            labels[t['label']] = labels.get(t['label'], 0) + 1
            kind = kinds[len(progs) % len(kinds)] if tier == 'quick' else None
            for k in ([kind] if kind else kinds):
                progs.append({'steps': ds.program(k, pool['names'], t['ops'], rnd), 'label': t['label'], 'pool': pool['kind'], 'kind': k})
    tag = 'prog-steer'
    d = sc.path('tlc-' + tag)
    if not os.path.isdir(d):
        _sh.copytree(SPEC, d)
    with open(os.path.join(d, 'progs.ndjson'), 'w') as f:
        for pr in progs:
            f.write(json.dumps({'steps': pr['steps']}, separators=(',', ':')) + '\n')
    out, st = run_tlc(sc, 'MC_prog', mc_cfg('MC_prog', open_devs()), tag=tag, timeout=1500)
    require_tlc_clean(st, 'MC_prog (dict steering)')
    ops = list(tlc_json_lines(out))
    cases = walk_cases(ops)
    for c, o in zip(cases, ops):
        pr = progs[o['prog'] - 1]
        c['steer'] = {'label': pr['label'], 'pool': pr['pool'], 'kind': pr['kind']}
    if len(cases) != len(progs):
        raise Inconclusive('MC_prog returned %d cases for %d programs' % (len(cases), len(progs)))
    for i, c in enumerate(cases):
        c['id'] = i
    v.cov['tlc_runs'].append({'model': 'Dict.tla over %d name pools (Refines, OnePlace, Findable, SizeOk hold)' % len(use),
                              'states': nstates, 'transitions': ngen})
    v.cov['tlc_runs'].append({'model': 'MC_prog (expectations for %d steering programs)' % len(progs), 'wall_s': st['wall_s']})
    return cases, {'branches_of_store_remove_covered': labels, 'pools': len(use), 'dict_states': nstates, 'programs': len(progs)}


def c03(sc, tier, seed):
    return transition_check(sc, tier, seed, 'C03', ['MC_lists'], walks=['MC_lists_walk'], quick_n=15000,
                            rule='TLC enumerates every state of MC_lists (2 keys; lists up to 3 over 2 elements, a string, a set) x every list command instance (indexes -5..5 and 32/64-bit extremes, counts, ranks, option orders, keyword case, bad arity); each transition is one case: load pre-state, send command, compare reply and full projected state. Non-trivial = the command changed the state or failed; distinct = distinct (pre-state, command).')


def c05(sc, tier, seed):
    return transition_check(sc, tier, seed, 'C05', ['MC_sets', 'MC_sets2'], walks=['MC_sets_walk'], quick_n=60000, steer=('set',),
                            rule='TLC enumerates every state of MC_sets (3 keys; each missing, one of the 3 non-empty sets over {x,y}, a string or a list) x every set command instance (all operand tuples up to length 3 incl. repeated/missing/wrong-typed operands and destination among the operands, SRANDMEMBER counts -3..3, SINTERCARD numkeys/LIMIT variants, bad arity); one replay case per transition with full-state comparison. Non-trivial = state changed or command failed; distinct = distinct (pre-state, command).')


def c04(sc, tier, seed):
    return transition_check(sc, tier, seed, 'C04', ['MC_hashes'], walks=['MC_hashes_walk'], quick_n=15000, steer=('hash',),
                            rule='TLC enumerates every state of MC_hashes (2 keys; hashes over fields {f,g} with values {x,7}, boundary integers +-2^63, mixed signs, dyadic floats, empty value; wrong-typed keys) x every hash command instance (HSET/HMSET/HSETNX incl. repeated fields and odd arity, HINCRBY over a sign/overflow table, HINCRBYFLOAT on dyadic values, HRANDFIELD counts -3..3 with/without WITHVALUES, bad arity); one replay case per transition with full-state comparison.')


def c02(sc, tier, seed):
    return transition_check(sc, tier, seed, 'C02', ['MC_strings'], walks=['MC_strings_walk'], quick_n=15000,
                            rule='TLC enumerates every state of MC_strings (2 keys; strings incl. empty, numeric, +-2^63, dyadic float, with and without TTL; wrong-typed keys) x every string command instance (SET with 29 option vectors incl. orders, keyword case and invalid combinations; SETNX/MSETNX in three spellings; GETRANGE over a 10x10 offset table; SETRANGE offsets -1..5; counters over a boundary table; LCS); one replay case per transition with full-state (value + deadline) comparison.',
                            assumptions=['INCRBYFLOAT/HINCRBYFLOAT only on multiples of 0.25 (exact in every float format); decimal rounding of non-dyadic values is out of scope'])


def c06(sc, tier, seed):
    return transition_check(sc, tier, seed, 'C06', ['MC_keyspace', 'MC_sort', 'MC_alias'], walks=['MC_keyspace_walk'], quick_n=39000, steer=('keys',),
                            rule='TLC enumerates MC_keyspace: 2 keys, each missing or one of 9 values (2 strings, 3 lists, 2 hashes, 2 sets; one- and two-element aggregates so that removing the last element is reached) x one well-formed instance of every data command per key (the WRONGTYPE cross product) + generic key commands (DEL UNLINK EXISTS TYPE TOUCH RENAME RENAMENX COPY KEYS with 16 glob patterns, RANDOMKEY, DBSIZE, SORT variants) + arity/unknown-command failures; FailedInert and WellFormed (no empty aggregate, one type per key) are checked by TLC on the ideal reading; every transition is replayed with full-state comparison before/after (that comparison is the inertness check on the real server).')


def c07(sc, tier, seed):
    return transition_check(sc, tier, seed, 'C07', ['MC_expiry', 'MC_expiry_txn'], walks=['MC_expiry_walk'], quick_n=28000,
                            rule='TLC enumerates MC_expiry: 2 keys, every type in each lifetime phase (no TTL / deadline in the future / deadline passed but object still stored, produced on the real server by PEXPIREAT into the past so that no sleeping is needed) x one instance of every data command per key + the EXPIRE/PEXPIRE/EXPIREAT/PEXPIREAT x NX/XX/GT/LT table + SET/GETEX expiry options; TLC checks ExpiredIsMissing (reply and live successor are unchanged when the stored db is replaced by its live part) on the ideal reading; every transition is replayed; deadlines are compared exactly for absolute-millisecond commands, within 1 s for whole-second commands and within the elapsed-time window for relative ones.',
                            assumptions=['model clock in ms; model time 1000000 is mapped to the wall-clock second at which a case starts; symbolic @T:/@M: arguments are substituted by real epoch values at replay time',
                                         'TTL/PTTL replies are accepted in the window [expected - elapsed - 1.5 s, expected]'])


def txn_hammer_stage(v, sc, exe, tier, seed):
    """C09 'EXEC is one unit no other client can interleave with': the transaction hammers of MC_conc (two
    connections running MULTI ... EXEC blocks into each other, against MGET / CLIENT INFO observers) run
    concurrently on the real server; each recorded history is validated by TLC (Trace_Lin)."""
    out, st = run_tlc(sc, 'MC_conc', mc_cfg('MC_conc', []), workers=1, timeout=600, tag='conc-hammers',
                      extra=['-simulate', 'num=1', '-depth', '5', '-seed', str(seed)])
    if st['rc'] != 0:
        raise Inconclusive('TLC failed on MC_conc:\n' + '\n'.join(st['tail'][-20:]))
    cases = []
    for op in tlc_json_lines(out):
        if 'hammer' in op:
            for rnd in range(3 if tier == 'quick' else 20):
                for spec in op['hammer']:
                    if not spec['name'].startswith('multi-exec'):
                        continue
                    progs = spec['progs']
                    if isinstance(progs, list):
                        progs = {str(i + 1): p for i, p in enumerate(progs)}
                    cases.append({'id': len(cases), 'pre': op['pre'], 'progs': progs, 'mode': 'pipe', 'chunk': spec.get('chunk', 0), 'name': spec['name']})
            break
    if not cases:
        raise Inconclusive('MC_conc printed no transaction hammer')
    hists = run_conc(exe, sc, cases)
    ok = [h for h in hists if h['status'] == 'ok']
    for h in hists:
        if h['status'] in ('crash', 'noreply'):
            v.record_violation(cases[h['id']], {'fail': {'status': h['status'], 'detail': h.get('detail', ''), 'cmd': 'concurrent transactions (%s)' % cases[h['id']]['name']}, 'stderr': h.get('stderr', '')}, engine='conc')
        elif h['status'] != 'ok':
            v.inconclusive.append('conc case %s: %s' % (h['id'], h.get('detail')))
    accepted, rejected, stats = validate_histories(sc, ok, open_devs())
    for bad, ev in rejected:
        v.record_violation({'history': bad, 'programs': cases[bad['id']]['progs'], 'mode': bad.get('mode')},
                           {'fail': {'status': 'viol', 'cmd': 'history %d (%s)' % (bad['id'], cases[bad['id']]['name']),
                                     'detail': 'no linearization with EXEC as one atomic step: the search never got past event %d of %d' % (ev, len(bad['ev']))}},
                           engine='trace_lin')
    v.cov['traces_validated_against_impl'] += len(accepted) + len(rejected)
    v.cov['engines']['conc_transactions'] = {'histories': len(hists), 'accepted': len(accepted), 'rejected': len(rejected),
                                             'with_overlapping_operations': sum(1 for h in ok if h.get('overlaps', 0) > 0)}
    v.cov['tlc_runs'].extend({'model': 'Trace_Lin (validation of transaction hammers)', **s_} for s_ in stats)


def c09(sc, tier, seed):
    return transition_check(sc, tier, seed, 'C09', ['MC_txn', 'MC_txn2'], 12000, extra_stage=lambda *a: (txn_hammer_stage(*a), gated_txn_stage(*a)), rule=
                            'TLC enumerates the tree of ALL programs of length 4 (so every shorter program as a prefix) of one connection over {MULTI, EXEC, DISCARD, WATCH, UNWATCH, 2 good commands, 2 commands failing at run time, unknown command, bad arity, a read} interleaved at every position with at most one command of a second connection (write / read / pop) - 41472 programs - checks QueuedInvisible, ResetAfterExec, ExecAllOrNothing, SessionIsolation and WatchIff on the ideal reading, and each program is replayed deterministically on two real connections: every reply, the full database state after every step, and at the end each connection\'s MULTI state / selected db / protocol / name are compared. MC_txn2: MULTI, two queued commands out of the five blocking commands (on a list with elements / a missing list) + a push + LLEN, EXEC, a read. Finally the transaction hammers of MC_conc (two connections running MULTI ... EXEC blocks of 2-4 commands into each other, against MGET / CLIENT INFO observers) run concurrently and each history is validated by TLC (Trace_Lin) with EXEC as one atomic step.')


def c10(sc, tier, seed):
    return transition_check(sc, tier, seed, 'C10', ['MC_watch', 'MC_watch2'], quick_n=10000, extra_stage=gated_txn_stage,
                            rule='TLC enumerates every program [step] WATCH a [step] MULTI PING [step by the other connection] EXEC with exactly one free position filled by: every data command of the emulator aimed at the watched key (all types; in-place and replacing writes, reads, failing writes), issued by the watching or by the other connection, FLUSHDB/FLUSHALL, or the deadline passing (300 ms of real time) - from 17 initial states (watched key missing / string / list / hash / set / with TTL); WatchIff (EXEC replies nil iff the watched key was modified since WATCH) is checked by TLC on the ideal reading; every program is replayed on two real connections. MC_watch2: WATCH, two steps of the other connection - round trips that restore the key (RENAME away and back, DEL + SET, overwrite + restore, push + pop, COPY over itself, HSET / SADD and undo) and BITFIELD with one applied and one refused write - then MULTI PING EXEC, from a string / lists / hash / set.')


def c14(sc, tier, seed):
    return transition_check(sc, tier, seed, 'C14', ['MC_multi', 'MC_multi2', 'MC_multi3'], walks=['MC_multi_walk'], quick_n=22000, walk_n=(400, 4000),
                            rule='TLC enumerates all 21952 programs of length 3 of two connections over {SELECT 0/1/15/16/-1, FLUSHDB, FLUSHALL, DBSIZE, SET/GET of a key name that holds different values in databases 0 and 1, KEYS *, CLIENT SETNAME/GETNAME, HELLO 3}, checks SessionIsolation, NamespaceIsolation and FlushGlobal on the ideal reading, and replays every program on real connections (replies, all databases after every step, and finally each connection\'s selected db / protocol / name / MULTI state); plus random walks of depth 8 of three connections (also HELLO 2/4, MULTI/EXEC, invalid names).')


def gated_txn_cases(out):
    """Forced interleavings of transactions (MC_conc: GatedTxn): prelude + held EXEC of connection 1, program Y of connection 2."""
    cs = []
    for op in tlc_json_lines(out):
        if 'gatedprog' in op:
            for g in sorted(op['gatedprog'], key=lambda g: json.dumps(g, sort_keys=True)):
                cs.append({'id': len(cs), 'pre': op['pre'], 'progs': {'1': g['x'], '2': g['y']}, 'mode': 'gated', 'name': 'gated-txn'})
            break
    return cs


def gated_txn_stage(v, sc, exe, tier, seed):
    """C10 / C09: EXEC takes its watch decision and runs its queue as ONE step: the EXEC of a prepared transaction is held
    where it first releases the data store lock (verif hook ds.unlocked) while another connection writes the watched
    key (or reads the keys the transaction writes); TLC (Trace_Lin) searches the recorded history for a linearization."""
    out, st = run_tlc(sc, 'MC_conc', mc_cfg('MC_conc', []), workers=1, timeout=600, tag='conc-gatedtxn',
                      extra=['-simulate', 'num=1', '-depth', '5', '-seed', str(seed)])
    if st['rc'] != 0:
        raise Inconclusive('TLC failed on MC_conc:\n' + '\n'.join(st['tail'][-20:]))
    cases = gated_txn_cases(out)
    if not cases:
        raise Inconclusive('MC_conc printed no gated transaction')
    cases = [dict(c, id=i) for i, c in enumerate(cases * (1 if tier == 'quick' else 3))]
    hists = run_conc(exe, sc, cases, tag='conc-gatedtxn')
    ok = [h for h in hists if h['status'] == 'ok']
    for h in hists:
        if h['status'] in ('crash', 'noreply'):
            v.record_violation(cases[h['id']], {'fail': {'status': h['status'], 'detail': h.get('detail', ''), 'cmd': 'held EXEC against a conflicting program'}, 'stderr': h.get('stderr', '')}, engine='conc')
        elif h['status'] != 'ok':
            v.inconclusive.append('conc case %s: %s' % (h['id'], h.get('detail')))
    accepted, rejected, stats = validate_histories(sc, ok, open_devs(), tag='lin-gatedtxn')
    for bad, ev in rejected:
        v.record_violation({'history': bad, 'programs': cases[bad['id']]['progs'], 'mode': 'gated'},
                           {'fail': {'status': 'viol', 'cmd': 'history %d (held EXEC)' % bad['id'],
                                     'detail': 'no linearization with EXEC (watch decision + queue) as one atomic step: the search never got past event %d of %d' % (ev, len(bad['ev']))}},
                           engine='trace_lin')
    v.cov['traces_validated_against_impl'] += len(accepted) + len(rejected)
    v.cov['engines']['conc_gated_transactions'] = {'histories': len(hists), 'accepted': len(accepted), 'rejected': len(rejected)}
    v.cov['tlc_runs'].extend({'model': 'Trace_Lin (validation of held-EXEC histories)', **s_} for s_ in stats)


def lin_check(sc, tier, seed, prop, walk_module, n_hist, depth, rule, assumptions=(), hammer_rounds=(2, 20)):
    """Concurrent executions of TLC-generated programs, each recorded history validated by TLC (Trace_Lin)."""
    v = Verdict(prop, tier, seed)
    exe = build_harness(sc)
    devs = open_devs()
    num = n_hist[0] if tier == 'quick' else n_hist[1]
    cfg = mc_cfg(walk_module, []).replace('Depth = 24', 'Depth = %d' % depth)
    out, st = run_tlc(sc, walk_module, cfg, workers=1, timeout=900,
                      extra=['-simulate', 'num=%d' % num, '-depth', str(3 * depth + 5), '-seed', str(seed)])
    if st['rc'] != 0 or st['violated']:
        raise Inconclusive('TLC simulation failed on %s:\n%s' % (walk_module, '\n'.join(st['tail'][-20:])))
    walks = [op for op in tlc_json_lines(out) if op.get('walk')]
    if not walks:
        raise Inconclusive('no walks generated')
    cases = walks_to_conc_cases(walks)
    # "hammer" programs defined in the model (one repeated contended command per connection, pipelined)
    ham_rounds = hammer_rounds[0] if tier == 'quick' else hammer_rounds[1]
    for op in tlc_json_lines(out):
        if 'hammer' in op:
            for rnd in range(ham_rounds):
                for spec in op['hammer']:
                    if spec['name'] in ('multi-exec-incr', 'multi-exec-clientinfo'):
                        continue            # (the transaction hammers belong to C09)
                    progs = spec['progs']
                    if isinstance(progs, list):
                        progs = {str(i + 1): p for i, p in enumerate(progs)}
                    cases.append({'id': len(cases), 'pre': op['pre'], 'progs': progs, 'mode': 'pipe', 'chunk': spec.get('chunk', 0), 'name': spec['name']})
            break
    # block-scaled "big value" hammers (harness/scale.go): values of 256 KiB .. 1 MiB, judged in the small universe
    nbig = 0
    for op in tlc_json_lines(out):
        if 'bighammer' in op:
            for rnd in range(ham_rounds + 1):
                for spec in op['bighammer']:
                    progs = spec['progs']
                    if isinstance(progs, list):
                        progs = {str(i + 1): p for i, p in enumerate(progs)}
                    cases.append({'id': len(cases), 'pre': op['pre'], 'progs': progs, 'mode': 'pipe' if rnd % 2 == 0 else 'rr', 'chunk': spec.get('chunk', 0),
                                  'scale': spec['scale'], 'name': spec['name']})
                    nbig += 1
            break
    # forced interleavings: one command held where it first releases the data store lock, a conflicting program run
    # in the gap (MC_conc: GX x GY)
    ngated = 0
    for op in tlc_json_lines(out):
        if 'gated' in op:
            pairs_ = sorted(op['gated'], key=lambda g: json.dumps(g, sort_keys=True))
            if tier == 'quick':
                import random as _r
                _r.Random(seed).shuffle(pairs_)
                gx_first = {}
                for g in pairs_:
                    gx_first.setdefault(json.dumps(g['x']), []).append(g)
                # every X against five of the Y programs, those that touch one of X's arguments first
                def shares(g):
                    xa = set(json.dumps(a) for a in g['x'][1:])
                    return any(json.dumps(a) in xa for cm in g['y'] for a in cm[1:])
                pairs_ = [g for gs in gx_first.values() for g in sorted(gs, key=lambda g: not shares(g))[:5]]
            for g in pairs_:
                cases.append({'id': len(cases), 'pre': op['pre'], 'progs': {'1': [g['x']], '2': g['y']}, 'mode': 'gated', 'name': 'gated'})
                ngated += 1
            break
    for g in gated_txn_cases(out):
        g['id'] = len(cases)
        cases.append(g)
        ngated += 1
    hists = run_conc(exe, sc, cases)
    ok = [h for h in hists if h['status'] == 'ok']
    for h in hists:
        if h['status'] in ('crash', 'noreply'):
            v.record_violation(cases[h['id']], {'fail': {'status': h['status'], 'detail': h.get('detail', ''), 'cmd': 'concurrent programs'}, 'stderr': h.get('stderr', '')}, engine='conc')
        elif h['status'] != 'ok':
            v.inconclusive.append('conc case %s: %s' % (h['id'], h.get('detail')))
    accepted, rejected, stats = validate_histories(sc, ok, devs)
    for bad, ev in rejected:
        v.record_violation({'history': bad, 'programs': cases[bad['id']]['progs'], 'mode': bad.get('mode')},
                           {'fail': {'status': 'viol', 'cmd': 'history %d' % bad['id'],
                                     'detail': 'no linearization: TLC exhausted every interleaving; the search never got past event %d of %d' % (ev, len(bad['ev']))}},
                           engine='trace_lin')
    v.cov['evaluations'] += len(hists)
    v.cov['traces_validated_against_impl'] += len(accepted) + len(rejected)
    v.cov['distinct_nontrivial'] += sum(1 for h in ok if h.get('overlaps', 0) > 0)
    for s_ in stats:
        v.cov['states'] += s_.get('distinct', 0)
        v.cov['transitions'] += s_.get('generated', 0)
    v.cov['tlc_runs'].append({'model': walk_module + ' (simulation: programs)', 'walks': len(walks), 'wall_s': st['wall_s']})
    v.cov['tlc_runs'].extend({'model': 'Trace_Lin (validation)', **s_} for s_ in stats)
    v.cov['engines']['conc'] = {'histories': len(hists), 'accepted': len(accepted), 'rejected': len(rejected), 'forced_interleavings': ngated, 'block_scaled_histories': nbig,
                                'with_overlapping_operations': sum(1 for h in ok if h.get('overlaps', 0) > 0),
                                'overlapping_operation_pairs': sum(h.get('overlaps', 0) for h in ok)}
    if ok:
        h0 = ok[0]
        v.cov['samples'].append({'mode': h0.get('mode'), 'events': [[e['e'], e['c']] for e in h0['ev'][:12]], 'ops_conn1': [cmd_text(o['cmd']) for o in h0['ops'][0][:6]]})
    v.assumptions = list(assumptions) + [
        'black box: a torn multi-key write, a lost update or a reply from a state that never existed is caught whenever the Go runtime produces it; no particular preemption inside a store method can be forced',
        'real-time order from a global atomic stamp taken before the request is written and after the reply was read',
        'the sequential oracle is the specification with the known functional deviations enabled (atomicity is judged independently of them)']
    return v.finish(rule=rule)


def c08(sc, tier, seed):
    return lin_check(sc, tier, seed, 'C08', 'MC_conc', (64, 500), 24, hammer_rounds=(2, 8), rule=
                     'TLC simulation of MC_conc yields walks of 24 steps of 3 connections over a contended vocabulary (read-modify-write on shared keys, multi-key commands, producer-tagged values); each walk is split into one program per connection; the programs run concurrently on the real server (alternating request/response and fully pipelined mode, released from a barrier); in addition the model\'s "hammer" programs (3-4 connections each repeating one contended read-modify-write / multi-key command 60-150 times, pipelined; MULTI/EXEC blocks against MGET observers) are run; TLC (Trace_Lin, depth-first) searches every interleaving of the specification\'s atomic steps for one that explains all replies, per-connection and real-time order, and the final state. Non-trivial = history with overlapping operations of different connections.')


def run_pairs(exe, sc, cases, hook=False, port=23000, tag='pairs'):
    port = int(os.environ.get('VERIF_PORT', port)) + (900 if hook else 700)
    cf = sc.path(tag + '-cases.jsonl')
    rf = sc.path(tag + '-out.jsonl')
    with open(cf, 'w') as f:
        for c in cases:
            f.write(json.dumps(c, separators=(',', ':')) + '\n')
    cmd = [exe, 'pairs', '-cases', cf, '-out', rf, '-workers', str(NCPU), '-port', str(port)] + (['-hook'] if hook else [])
    p = subprocess.run(cmd, stdout=subprocess.PIPE, stderr=subprocess.PIPE, text=True)
    if p.returncode != 0:
        raise Inconclusive('pairs engine failed: ' + p.stderr[-2000:])
    return [json.loads(l) for l in open(rf)]


def c15(sc, tier, seed):
    """RESP2 = Down(RESP3): recorded reply pairs judged by TLC (Trace_Resp); HELLO switching by replayed programs."""
    v = Verdict('C15', tier, seed)
    exe = build_harness(sc)
    devs = open_devs()
    # (1) every command instance of the keyspace / hash / string models, on both protocols
    cases = []
    for module, quota in (('MC_keyspace', 1500 if tier == 'quick' else 26000), ('MC_hashes', 800 if tier == 'quick' else 8000),
                          ('MC_strings', 500 if tier == 'quick' else 6000), ('MC_sets2', 300 if tier == 'quick' else 3000)):
        out, st = run_tlc(sc, module, mc_cfg(module, []), timeout=900)
        require_tlc_clean(st, module)
        v.add_tlc(module, st)
        allcs = join_cases(tlc_json_lines(out))
        cs = [c for c in allcs
              if c['steps'][-1]['ideal']['r']['t'] not in ('rand', 'randone', 'randpairs', 'ttl', 'time', 'dead', 'any')]
        cases.extend(sample_cases(cs, quota, seed))
        # replies with a random choice differ in content between the two executions: they are judged by shape
        # (nesting, lengths, flattening of pairs) - ShapeMatch of Trace_Resp
        rcs = [dict(c, rand=1) for c in allcs if c['steps'][-1]['ideal']['r']['t'] in ('rand', 'randone', 'randpairs')]
        cases.extend(sample_cases(rcs, max(200, quota // 4), seed))
    extra = [['CLIENT', 'LIST'], ['CLIENT', 'INFO'], ['INFO'], ['HELLO'], ['COMMAND', 'COUNT'], ['PING'], ['ECHO', 'x'], ['DBSIZE'],
             ['CLIENT', 'GETNAME'], ['CLIENT', 'ID'], ['TYPE', 'nokey'], ['COMMAND', 'INFO', 'get'], ['COMMAND', 'DOCS', 'get'], ['COMMAND', 'GETKEYS', 'get', 'k']]
    for e in extra:
        cases.append({'pre': {'ents': [], 'now': 1000000, 'conn': []}, 'steps': [{'c': 1, 'cmd': [[ord(ch) for ch in a] for a in e]}]})
    for i, c in enumerate(cases):
        c['id'] = i
    pairs = run_pairs(exe, sc, cases)
    randid = {c['id']: True for c in cases if c.get('rand')}
    # introspection replies contain ids / ports / ages that differ between the two executions: digit runs are
    # normalised on both sides before the comparison (structure and all other text still compared)
    def norm_digits(t):
        if isinstance(t, dict):
            if 's' in t and isinstance(t['s'], list):
                txt_, out_ = bytes(t['s']).decode('latin-1'), []
                t['s'] = [ord(ch) for ch in re.sub(r'\d+', '0', txt_)]
            for x in t.get('a', []) if isinstance(t.get('a'), list) else []:
                norm_digits(x)
    for p_ in pairs:
        if p_['status'] == 'ok' and p_['cmd'] and bytes(p_['cmd'][0]).upper() in (b'CLIENT', b'INFO', b'HELLO'):
            for x in (p_['r2'], p_['r3']):
                norm_digits(x)
                # CLIENT LIST has one line per connection that happens to be open at that moment (the twin
                # connection of the other protocol may or may not be): the distinct normalised lines are compared
                if bytes(p_['cmd'][0]).upper() == b'CLIENT' and isinstance(x.get('s'), list) and 10 in x['s']:
                    lines_ = sorted(set(l_ for l_ in bytes(x['s']).decode('latin-1').split('\n') if l_))
                    x['s'] = [ord(ch) for ch in '\n'.join(lines_) + '\n']
                if x.get('t') == 'int':
                    x['n'] = '0'
                for y in x.get('a', []) if isinstance(x.get('a'), list) else []:
                    if isinstance(y, dict) and y.get('t') == 'int':
                        y['n'] = '0'
    # (2) every reply tree of depth <= 2 through the public dispatch hook
    out, st = run_tlc(sc, 'MC_trees', mc_cfg('MC_trees', []), timeout=600)
    require_tlc_clean(st, 'MC_trees')
    v.add_tlc('MC_trees', st)
    tcases = join_cases(tlc_json_lines(out))
    for i, c in enumerate(tcases):
        c['id'] = len(cases) + i
    tpairs = run_pairs(exe, sc, tcases, hook=True, tag='tpairs')
    allp = sorted([p for p in pairs + tpairs if p['status'] == 'ok'], key=lambda p: p['id'])
    skipped = [p for p in pairs + tpairs if p['status'] != 'ok']
    d = sc.path('tlc-resp')
    shutil.copytree(SPEC, d)
    with open(os.path.join(d, 'pairs.ndjson'), 'w') as f:
        for p in allp:
            f.write(json.dumps({'r2': p['r2'], 'r3': p['r3'], 'rand': 1 if randid.get(p['id']) else 0}, separators=(',', ':')) + '\n')
    cfg = open(os.path.join(SPEC, 'Trace_Resp.cfg')).read().replace('OpenDev = {}', 'OpenDev = ' + tla_set(devs))
    out, st = run_tlc(sc, 'Trace_Resp', cfg, workers=1, timeout=900, tag='resp')
    # run_tlc copies the spec dir afresh: place the pairs file there and run again if it was missing
    txt = open(out, errors='replace').read()
    if 'pairs.ndjson' in txt and 'rror' in txt:
        shutil.copy(os.path.join(d, 'pairs.ndjson'), os.path.join(os.path.dirname(out), 'pairs.ndjson'))
        out, st = run_tlc(sc, 'Trace_Resp', cfg, workers=1, timeout=900, tag='resp')
        txt = open(out, errors='replace').read()
    m = re.search(r'<<"PAIRS", (\d+)>>', txt)
    if not m or int(m.group(1)) != len(allp):
        raise Inconclusive('Trace_Resp did not judge the recorded pairs:\n' + txt[-2000:])
    v.add_tlc('Trace_Resp', st)

    flat = re.sub(r'\s+', '', txt)

    def idx_set(tag, dev=None):
        pat = r'<<"%s",%s\{([^}]*)\}>>' % (tag, ('"%s",' % dev) if dev else '')
        mm = re.search(pat, flat)
        if not mm:
            raise Inconclusive('Trace_Resp printed no %s set' % tag)
        return [int(x) for x in mm.group(1).replace(' ', '').split(',') if x]
    bad = [('RESP3 type emitted on a RESP2 connection', n) for n in idx_set('BADR2')] + \
          [('RESP2 reply is not the down-conversion of the RESP3 reply', n) for n in idx_set('BADDOWN')]
    for why, n in bad[:25]:
        p = allp[n - 1]
        v.record_violation({'cmd': p['cmd'], 'r2': p['r2'], 'r3': p['r3']},
                           {'fail': {'status': 'viol', 'cmd': cmd_text(p['cmd']), 'detail': why + ': r2=%s r3=%s' % (json.dumps(p['r2'])[:200], json.dumps(p['r3'])[:200])}},
                           engine='trace_resp')
    for dv in devs:
        if ('"KNOWN","%s"' % dv) in flat:
            ks = idx_set('KNOWN', dv)
            for n in ks:
                v.record_known(dv, cmd_text(allp[n - 1]['cmd'])[:120])
    v.cov['evaluations'] += len(pairs) + len(tpairs)
    v.cov['traces_validated_against_impl'] += len(allp)
    v.cov['distinct_nontrivial'] += sum(1 for p in allp if p['r2'] != p['r3'])
    v.cov['engines']['pairs'] = {'pairs_judged': len(allp), 'no_reply_skipped': len(skipped), 'pairs_with_different_wire_form': sum(1 for p in allp if p['r2'] != p['r3']),
                                 'reply_trees_via_hook': len(tpairs)}
    v.cov['samples'].append({'cmd': cmd_text(allp[0]['cmd']), 'r2': allp[0]['r2'], 'r3': allp[0]['r3']})
    # (3) HELLO switching per connection
    out, st = run_tlc(sc, 'MC_hello', mc_cfg('MC_hello', devs), timeout=600)
    require_tlc_clean(st, 'MC_hello')
    v.add_tlc('MC_hello', st)
    hc = join_cases(tlc_json_lines(out))
    results, dt = run_replay(exe, sc, hc)
    v.absorb_replay(hc, results, engine='hello-programs')
    v.assumptions = ['random and clock-dependent replies are excluded from the pair comparison (two executions differ legitimately)',
                     'commands that crash or do not answer are reported by the functional checks, not here',
                     'scalar RESP3-only types may be rendered as simple or bulk string under RESP2 (same text)']
    return v.finish(rule='pairs (command, RESP2 reply, RESP3 reply) recorded from the real server for the command universes of the keyspace/hash/string/set models plus introspection commands, and for every reply tree of depth <= 2 over all node types (nil, int, string, bool, double incl. inf, big number, array, set, map; through the public dispatch hook); TLC (Trace_Resp) judges Resp2Only(r2) and r2 = Down(r3) for every pair; all 2-connection programs of length 3 over HELLO variants are replayed with wire-type checks against the protocol in force. Non-trivial = pair whose two wire forms differ.')


def c18(sc, tier, seed):
    return transition_check(sc, tier, seed, 'C18', ['MC_bitmaps', 'MC_bitfield'], quick_n=50000, walks=['MC_bitmaps_walk'], walk_n=(600, 6000),
                            rule='TLC enumerates MC_bitmaps (strings of 0-3 bytes over {00,ff,80,01,a5} x GETBIT/SETBIT at every offset 0..25, BITCOUNT and BITPOS over byte ranges -4..4 and bit ranges -25..30 with BYTE/BIT units, BITOP AND/OR/XOR/NOT over operand tuples incl. missing, repeated and wrong-typed ones) and MC_bitfield (BITFIELD GET/SET/INCRBY for 13 widths 1..64 x signedness x aligned, unaligned and #-scaled offsets spanning up to 9 bytes x the values at each type\'s overflow boundaries x OVERFLOW WRAP/SAT/FAIL, computed exactly on decimal digit sequences) and replays every transition with full-state comparison (so a write touching other bits, or a read changing the value, is seen).',
                            assumptions=['BITFIELD wrap-around is modelled for values within two wraps of the type range (the universe only contains such values)'])


def c01(sc, tier, seed):
    """Framing: TLC-enumerated chunkings of command streams written to a real socket; raw reply bytes compared."""
    import random as _r
    v = Verdict('C01', tier, seed)
    exe = build_harness(sc)
    devs = open_devs()
    out, st = run_tlc(sc, 'MC_framing', mc_cfg('MC_framing', devs), timeout=900)
    require_tlc_clean(st, 'MC_framing')
    v.add_tlc('MC_framing', st)
    ideal, real = {}, {}
    for op in tlc_json_lines(out):
        if op.get('framing'):
            (real if op.get('dev') else ideal)[json.dumps([op['cmds'], op['chunks']])] = op
    cases = []
    for k, op in ideal.items():
        c = {'cmds': op['cmds'], 'chunks': op['chunks'], 'replies': op['replies'], 'delay_us': 300}
        if k in real and real[k]['replies'] != op['replies']:
            c['replies'] = real[k]['replies']
            c['dev'] = True
        cases.append(c)
    rnd = _r.Random(seed)
    singles = [c for c in cases if len(c['chunks']) <= 2]
    doubles = [c for c in cases if len(c['chunks']) > 2]
    rnd.shuffle(doubles)
    chosen = singles + (doubles[:1500] if tier == 'quick' else doubles)
    # pipelines of depth 1..16 in one write, and arguments larger than the server's 8 KiB read buffer cut around
    # its boundaries (generated here: a 70000-byte argument is not something to enumerate byte by byte in TLC)
    ping = [[80, 73, 78, 71]]
    pong = {'t': 'simple', 'v': 'PONG'}
    for depth in range(1, 17):
        chosen.append({'cmds': [ping] * depth, 'chunks': [14 * depth], 'replies': [pong] * depth, 'delay_us': 0})
    # (8163 / 16354: the whole SET command is exactly 8192 / 16384 bytes - one or two full read buffers and nothing
    #  after it; 8162 / 8164: one byte less / more)
    for size in (8162, 8163, 8164, 16354, 9000, 70000):
        big = [[[83, 1], [69, 1], [84, 1]], [[98, 1]], [[120, size - 3], [13, 1], [10, 1], [0, 1]]]      # SET b x...x\r\n\0
        getb = [[[71, 1], [69, 1], [84, 1]], [[98, 1]]]
        val = [120] * (size - 3) + [13, 10, 0]
        total = len(b'*3\r\n$3\r\nSET\r\n$1\r\nb\r\n$%d\r\n' % size) + size + 2 + len(b'*2\r\n$3\r\nGET\r\n$1\r\nb\r\n')
        for cut in [1, 4095, 8191, 8192, 8193, 16384, total - 23, total - 1] + ([c_ for c_ in (65535, 65536, 65537) if c_ < total]):
            if 0 < cut < total:
                chosen.append({'bigcmds': [big, getb], 'cmds': [], 'chunks': [cut, total - cut], 'delay_us': 1000,
                               'replies': [{'t': 'simple', 'v': 'OK'}, {'t': 'bulk', 's': val}]})
        chosen.append({'bigcmds': [big, getb], 'cmds': [], 'chunks': [8192] * (total // 8192 + 1), 'delay_us': 200,
                       'replies': [{'t': 'simple', 'v': 'OK'}, {'t': 'bulk', 's': val}]})
    for i, c in enumerate(chosen):
        c['id'] = i
    cf, rf = sc.path('fr-cases.jsonl'), sc.path('fr-out.jsonl')
    with open(cf, 'w') as f:
        for c in chosen:
            f.write(json.dumps(c, separators=(',', ':')) + '\n')
    port = int(os.environ.get('VERIF_PORT', 21000)) + 1200
    p = subprocess.run([exe, 'framing', '-cases', cf, '-out', rf, '-workers', str(NCPU), '-port', str(port)], stdout=subprocess.PIPE, stderr=subprocess.PIPE, text=True)
    if p.returncode != 0:
        raise Inconclusive('framing engine failed: ' + p.stderr[-2000:])
    results = {r['id']: r for r in (json.loads(l) for l in open(rf))}
    nontriv = 0
    for c in chosen:
        r = results.get(c['id'])
        v.cov['evaluations'] += 1
        if r is None:
            v.inconclusive.append('framing case %d: no result' % c['id'])
        elif r['status'] == 'ok':
            v.cov['traces_validated_against_impl'] += 1
            nontriv += 1 if len(c['chunks']) > 1 else 0
        elif r['status'] == 'misframed' and c.get('dev'):
            v.cov['traces_validated_against_impl'] += 1
            v.record_known('D_UNKNOWN_COMMAND_ERROR_ECHOES_CRLF', 'reply bytes %r' % r.get('misframed_reply', '')[:80])
        elif r['status'] in ('viol', 'crash', 'noreply', 'misframed'):
            c2 = dict(c)
            if 'bigcmds' in c2:
                c2['replies'] = '(omitted)'
            v.record_violation(c2, {'fail': {'status': r['status'], 'cmd': 'stream of %d command(s), chunks %s' % (len(c.get('cmds') or c.get('bigcmds')), c['chunks'][:6]), 'detail': r.get('detail', '')[:600]}}, engine='framing')
        else:
            v.inconclusive.append('framing case %d: %s' % (c['id'], r.get('detail')))
    v.cov['distinct_nontrivial'] = nontriv
    v.cov['engines']['framing'] = {'chunked_scripts': len(chosen), 'single_cut': len(singles), 'double_cut': len(chosen) - len(singles) - 16}
    v.cov['samples'].append({'cmds': [cmd_text(x) for x in chosen[5]['cmds']], 'chunks': chosen[5]['chunks']})
    v.assumptions = ['the kernel may coalesce chunks written 300 us apart into one read of the server: that weakens coverage, never soundness',
                     'the reference for split-independence is the same stream sent one command at a time on a fresh identical state; each reference reply is additionally checked against the specification and for being exactly one well-formed RESP value; a PING sentinel detects surplus or missing bytes']
    return v.finish(rule='TLC explores the socket read-loop model (Framing.tla) for 9 command streams with binary-unsafe arguments (empty, CR, LF, CRLF, NUL, 0xff, RESP-looking text as key, value, field, member, element) under every chunking with at most 2 cuts, checks InOrder and SplitIndependent on the model and prints each chunking; every single cut and (quick: 1500 seeded; thorough: all) double cuts are written to a real socket and the raw reply bytes compared with the unsplit run; plus pipelines of depth 1..16 in one write and 9000/70000-byte arguments cut around the 8 KiB read-buffer boundaries. Non-trivial = script with at least one cut.')


def c13(sc, tier, seed):
    """Hostile input: TLC-generated command vectors / byte strings sent to children; liveness and one-reply checks."""
    import random as _r
    v = Verdict('C13', tier, seed)
    exe = build_harness(sc)
    devs = open_devs()
    out, st = run_tlc(sc, 'Inputs', mc_cfg('Inputs', devs), timeout=900)
    require_tlc_clean(st, 'Inputs')
    v.add_tlc('Inputs', st)
    cmdcases, special = [], []
    for op in tlc_json_lines(out):
        if op.get('hostile'):
            cmdcases.append({'cmd': op['cmd'], 'pre': op['pre'], 'known': op['known']})
        elif 'rawcases' in op:
            special += [dict({'raw': r['raw'], 'reply': r['reply'], 'known': r['known']}, **({'cut': r['cut'], 'replies': r['replies']} if 'cut' in r else {})) for r in op['rawcases']]
        elif 'specials' in op:
            special += [{'seq': sp['seq'], 'known': sp['known']} for sp in op['specials']]
    if not cmdcases or not special:
        raise Inconclusive('Inputs produced no cases')
    total = len(cmdcases)
    if tier == 'quick':
        rnd = _r.Random(seed)
        keep = [c for c in cmdcases if c['known'] != 'none']
        rest = [c for c in cmdcases if c['known'] == 'none']
        # every command name x arity at least once, then a seeded sample
        seen, must, other = set(), [], []
        rnd.shuffle(rest)
        for c in rest:
            k = (b2s(c['cmd'][0]), len(c['cmd']), c['pre']['ents'][0]['v']['ty'] if c['pre']['ents'] else 'none')
            if k not in seen:
                seen.add(k)
                must.append(c)
            else:
                other.append(c)
        cmdcases = keep + must + other[:max(0, 12000 - len(must))]
    cases = cmdcases + special
    for i, c in enumerate(cases):
        c['id'] = i
    cf, rf = sc.path('ho-cases.jsonl'), sc.path('ho-out.jsonl')
    with open(cf, 'w') as f:
        for c in cases:
            f.write(json.dumps(c, separators=(',', ':')) + '\n')
    port = int(os.environ.get('VERIF_PORT', 21000)) + 1500
    p = subprocess.run([exe, 'hostile', '-cases', cf, '-out', rf, '-workers', str(NCPU), '-port', str(port)], stdout=subprocess.PIPE, stderr=subprocess.PIPE, text=True)
    if p.returncode != 0:
        raise Inconclusive('hostile engine failed: ' + p.stderr[-2000:])
    results = {r['id']: r for r in (json.loads(l) for l in open(rf))}
    nontriv = set()
    for c in cases:
        r = results.get(c['id'])
        v.cov['evaluations'] += 1
        what = cmd_text(c['cmd']) if 'cmd' in c else (repr(bytes(c['raw']))[:80] if 'raw' in c else ' ; '.join(cmd_text(x) for x in c['seq']))
        if r is None or r['status'] == 'error':
            v.inconclusive.append('hostile case %d: %s' % (c['id'], (r or {}).get('detail')))
            continue
        v.cov['traces_validated_against_impl'] += 1
        nontriv.add(what)
        if r['status'] == 'ok':
            if c['known'] != 'none':
                pass  # listed finding did not show on this input (stale finding): not an alarm
            continue
        if c['known'] != 'none':
            v.record_known(c['known'], what + ' :: ' + (r.get('detail') or '')[:200])
            continue
        if len(v.violations) < 25:
            v.record_violation({k: c[k] for k in c if k != 'id'}, {'fail': {'status': r['status'], 'cmd': what, 'detail': (r.get('detail') or '')[:500]}, 'stderr': (r.get('stderr') or '')[:1500]}, engine='hostile')
        else:
            v.violations.append('(more)')
    v.cov['distinct_nontrivial'] = len(nontriv)
    v.cov['engines']['hostile'] = {'command_vectors_enumerated_by_tlc': total, 'command_vectors_sent': len(cmdcases), 'byte_level_and_sequence_cases': len(special)}
    v.cov['samples'] += [cmd_text(cmdcases[0]['cmd']), repr(bytes(special[0]['raw'])) if 'raw' in special[0] else str(special[0])[:100]]
    v.assumptions = ['children run under a 6 GB address-space limit so that an absurd allocation kills the child, not the machine; allocations of 2^31 / 2^32 units are not part of the claim',
                     'blocking commands (a timeout of 0 legitimately never answers) are covered by C11/C12, not here',
                     'reply content is not judged here (C02-C07 do that): exactly one well-formed reply within 2 s, process alive, a second connection answers PING within 1 s']
    return v.finish(level='fault_enumeration', rule='TLC enumerates (Inputs.tla) every command name of the dispatcher x argument vectors of length 0..4 over extreme argument classes (-2^63, 2^63-1, 2^31, 2^32, -1, 0, 1, empty, nan, inf, text, a key) x the type of that key (130k vectors; quick: every (name, arity, key type) at least once + seeded sample), plus 16 RESP type bytes x 10 declared lengths at top level / as array element / as argument, every truncation of a valid command, blank lines, inline text, nested aggregates as arguments, and keyword / multi-step sequences (huge COUNTs, MULTI+CLIENT LIST+EXEC, extreme TTLs and indexes); each is sent to a child; distinct = distinct inputs.',
                    exhaustive=(tier != 'quick'))


def c19(sc, tier, seed):
    """Persistence: TLC-enumerated (snapshot state, last command) pairs run through save / restart cycles of real instances."""
    import random as _r
    v = Verdict('C19', tier, seed)
    exe = build_harness(sc)
    devs = open_devs()
    out, st = run_tlc(sc, 'MC_persist', mc_cfg('MC_persist', devs), timeout=900)
    require_tlc_clean(st, 'MC_persist')
    v.add_tlc('MC_persist', st)
    cases = [c for c in join_cases(tlc_json_lines(out))]
    rnd = _r.Random(seed)
    rnd.shuffle(cases)
    nstage = 150 if tier == 'quick' else 1200
    port = int(os.environ.get('VERIF_PORT', 21000)) + 1800
    allres = []
    for tag, part, extra in (('ps', cases[nstage:], []), ('pss', cases[:nstage], ['-stages'])):
        for i, c in enumerate(part):
            c['id'] = i
        cf, rf = sc.path(tag + '-cases.jsonl'), sc.path(tag + '-out.jsonl')
        with open(cf, 'w') as f:
            for c in part:
                f.write(json.dumps(c, separators=(',', ':')) + '\n')
        p = subprocess.run([exe, 'persist', '-cases', cf, '-out', rf, '-workers', '12', '-port', str(port)] + extra, stdout=subprocess.PIPE, stderr=subprocess.PIPE, text=True)
        if p.returncode != 0:
            raise Inconclusive('persist engine failed: ' + p.stderr[-2000:])
        res = {r['id']: r for r in (json.loads(l) for l in open(rf))}
        allres += [(c, res.get(c['id'])) for c in part]
    images = torn_empty = 0
    nontriv = 0
    for c, r in allres:
        v.cov['evaluations'] += 1
        what = cmd_text(c['steps'][-1]['cmd'])
        if r is None or r['status'] == 'error':
            v.inconclusive.append('persist case: %s: %s' % (what, (r or {}).get('detail')))
            continue
        if r['status'] == 'skipped':
            continue
        if r['status'] == 'reloadfail':
            v.cov['traces_validated_against_impl'] += 1
            empty_str = any(e['v']['ty'] == 'string' and e['v']['s'] == [] for e in c['pre']['ents'])
            if empty_str and 'D_PERSIST_EMPTY_STRING_LOADS_UNREADABLE' in devs and 'WRONGTYPE' in (r.get('detail') or ''):
                v.record_known('D_PERSIST_EMPTY_STRING_LOADS_UNREADABLE', 'SET a "" ; shutdown ; restart :: ' + (r.get('detail') or '')[:200])
            else:
                v.record_violation(c, {'fail': {'status': 'viol', 'cmd': '(no command: save and reload only)', 'detail': (r.get('detail') or '')[:600]}}, engine='persist')
            continue
        v.cov['traces_validated_against_impl'] += 1
        if c['pre']['ents'] != c['steps'][-1]['ideal']['post']['ents']:
            nontriv += 1
        if r['status'] == 'known':
            for dv in r.get('dv') or ['?']:
                v.record_known(dv, what + ' :: ' + (r.get('detail') or '')[:200])
        elif r['status'] != 'ok':
            v.record_violation(c, {'fail': {'status': r['status'], 'cmd': what, 'detail': (r.get('detail') or '')[:600]}}, engine='persist')
            continue
        images += r.get('images', 0)
        torn_empty += r.get('torn_empty', 0)
        if r.get('torn'):
            v.record_violation(c, {'fail': {'status': 'viol', 'cmd': what, 'detail': 'crash image is neither the previous nor the new snapshot (nor empty): ' + '; '.join(r['torn'])[:600]}}, engine='persist-images')
    if torn_empty:
        if 'D_SAVE_TRUNCATES_FILE_IN_PLACE' in devs:
            v.known['D_SAVE_TRUNCATES_FILE_IN_PLACE'] = torn_empty
            v.known_example['D_SAVE_TRUNCATES_FILE_IN_PLACE'] = '%d of %d captured crash images load as an empty database' % (torn_empty, images)
        else:
            v.record_violation({'images': images}, {'fail': {'status': 'viol', 'cmd': 'crash images', 'detail': '%d of %d crash images load as an empty database' % (torn_empty, images)}}, engine='persist-images')
    v.cov['distinct_nontrivial'] = nontriv
    v.cov['engines']['persist'] = {'restart_cases': len(allres), 'crash_images_loaded': images, 'crash_images_loading_empty': torn_empty}
    v.add_samples(cases, 2)
    v.assumptions = ['one command between the last save and the shutdown (the "last mutator before shutdown" axis); longer histories only through the final state they produce',
                     'a crash is simulated by copying the persist files at each hook point of the snapshot writer (after create, after header, after each key, before close) and loading the copy in a fresh instance',
                     'expired-but-stored entries are saved and loaded like any other (invisible either way)']
    return v.finish(rule='TLC enumerates MC_persist: 12 snapshot states (every type, with/without TTL, databases 0 and 1) x 121 command instances (one instance of every mutator of the emulator on every type incl. in-place changes, removal of the last element, expiry changes, FLUSHDB/FLUSHALL) and computes what a restart must load (RestartRestores checked on the ideal reading); each pair runs through real instances: load + clean shutdown, restart, command, clean shutdown, restart, full-state comparison; for a seeded subset the on-disk image at every stage of the snapshot write is captured through the verif hook and loaded by a fresh instance (must be the previous or the new snapshot). Non-trivial = the command changed the database.',
                    level='fault_enumeration')


def c20(sc, tier, seed):
    """Lifecycle: TLC-enumerated scenarios of Lifecycle.tla executed against the public API in child processes."""
    import random as _r
    from concurrent.futures import ThreadPoolExecutor
    v = Verdict('C20', tier, seed)
    exe = build_harness(sc)
    devs = open_devs()
    cfg = open(os.path.join(SPEC, 'Lifecycle.cfg')).read()
    out, st = run_tlc(sc, 'Lifecycle', cfg, timeout=600, workers=4)
    require_tlc_clean(st, 'Lifecycle')
    v.add_tlc('Lifecycle', st)
    scen = [op['life'] for op in tlc_json_lines(out) if 'life' in op]
    if not scen:
        raise Inconclusive('Lifecycle produced no scenario')
    # two port slots: instances alive side by side, one of them stopped (Lifecycle2.cfg)
    out2, st2 = run_tlc(sc, 'Lifecycle', open(os.path.join(SPEC, 'Lifecycle2.cfg')).read(), timeout=600, workers=4, tag='Lifecycle2')
    require_tlc_clean(st2, 'Lifecycle (two ports)')
    v.add_tlc('Lifecycle (two ports)', st2)
    scen2 = [op['life'] for op in tlc_json_lines(out2) if 'life' in op]
    # of those, the ones in which a client of the OTHER instance is connected when an instance stops
    def cross(s_):
        inst_of_port, conn_of = {}, {}
        for a in s_:
            if a['a'] == 'start':
                inst_of_port[a['p']] = a['i']
            elif a['a'] == 'connect':
                conn_of[a['c']] = inst_of_port.get(a['p'])
            elif a['a'] in ('close', 'quit'):
                if any(i_ != a['i'] for i_ in conn_of.values()):
                    return True
                inst_of_port = {p_: i_ for p_, i_ in inst_of_port.items() if i_ != a['i']}
                conn_of = {c_: i_ for c_, i_ in conn_of.items() if i_ != a['i']}
        return False
    scen2 = [s_ for s_ in scen2 if cross(s_)]
    rnd = _r.Random(seed)
    rnd.shuffle(scen)
    rnd.shuffle(scen2)
    # scenarios with clients connected at a close first
    def weight(s_):
        open_, w_ = set(), 0
        for a in s_:
            if a['a'] == 'connect':
                open_.add(a['c'])
            if a['a'] == 'close':
                w_ += len(open_)
        return -w_
    scen.sort(key=weight)
    n = 160 if tier == 'quick' else 2500
    chosen = scen[:n // 2] + rnd.sample(scen[n // 2:], min(n - n // 2, len(scen) - n // 2))
    # every way of stopping: make sure both Close() and the quit channel are among the first scenarios
    chosen += scen2[:(60 if tier == 'quick' else 1200)]
    base = int(os.environ.get('VERIF_PORT', 21000)) + 2300

    def run_one(arg):
        k, s_ = arg
        port = base + 5 * (k % 64)
        try:
            p = subprocess.run([exe, 'lifehost', str(port), json.dumps(s_)], stdout=subprocess.PIPE, stderr=subprocess.PIPE, text=True, timeout=40)
        except subprocess.TimeoutExpired:
            return s_, None, 'timeout', ''
        lines = [l for l in p.stdout.splitlines() if l.startswith('{')]
        return s_, (json.loads(lines[-1]) if lines else None), p.returncode, p.stderr[-800:]
    with ThreadPoolExecutor(max_workers=8) as ex:
        results = list(ex.map(run_one, list(enumerate(chosen))))
    nontriv = 0
    for s_, ob, rc, err in results:
        v.cov['evaluations'] += 1
        desc = ' '.join(a['a'] + str(a.get('i', a.get('c', ''))) + (':' + a['act'] if 'act' in a else '') + ('@p%d' % a['p'] if a.get('p', 1) != 1 else '') for a in s_)
        if ob is None or rc == 'timeout':
            v.record_violation({'scenario': s_}, {'fail': {'status': 'viol', 'cmd': desc, 'detail': 'scenario host did not finish (%s): %s' % (rc, err[-300:])}}, engine='life')
            continue
        v.cov['traces_validated_against_impl'] += 1
        problems, known = [], []
        if rc != 0 or (ob['steps'] and ob['steps'][-1].get('a') == 'starting'):
            problems.append('the process exited while starting instance %s on the port (listen failed: port not released?) %s' % (ob['steps'][-1].get('i'), err[-200:]))
        for o in ob['steps']:
            if o['a'] == 'start' and o.get('dbsize', 0) != 0:
                problems.append('successor instance %s is not empty: DBSIZE %s' % (o.get('i'), o.get('dbsize')))
            if o['a'] == 'start' and ('dial_err' in o or 'dbsize_err' in o):
                problems.append('started instance %s does not serve: %s' % (o.get('i'), o.get('dial_err') or o.get('dbsize_err')))
            if o['a'] in ('close', 'quit'):
                if not o.get('returned') or o.get('ms', 0) > 2000:
                    problems.append('%s of instance %s did not return within 2 s' % ('Close()' if o['a'] == 'close' else 'WaitForTermination() after the quit signal', o.get('i')))
                for pr in o.get('other_conns', []):
                    nontriv += 1
                    if not pr.get('alive'):
                        problems.append('stopping instance %s affected connection %s (%s) of instance %s: %s' % (o.get('i'), pr['c'], pr['act'], pr.get('of'), pr.get('detail', '')))
                if o.get('port_still_accepts'):
                    problems.append('the port still accepts connections after Close()')
                for pr in o.get('old_conns', []):
                    nontriv += 1
                    if pr['outcome'] != 'closed':
                        known.append('connection %s (%s) after Close(): %s %s' % (pr['c'], pr['act'], pr['outcome'], pr.get('reply', '')))
        iso = ob.get('iso') or {}
        if iso.get('b_sees_a_data'):
            problems.append('instance B sees data written to instance A')
        reg = []
        if iso.get('a_client_list_lines', 1) != 1:
            reg.append('CLIENT LIST of instance A lists %s connections (1 is connected to it)' % iso.get('a_client_list_lines'))
        if iso.get('b_conn_survives_kill_from_a') is False:
            reg.append('CLIENT KILL ID issued on instance A closed a connection of instance B')
        if known:
            if 'D_CLOSE_LEAVES_CONNECTIONS_OPEN' in devs:
                v.record_known('D_CLOSE_LEAVES_CONNECTIONS_OPEN', desc + ' :: ' + '; '.join(known)[:200])
            else:
                problems += known
        if reg:
            if 'D_CLIENT_REGISTRY_IS_PROCESS_GLOBAL' in devs:
                v.record_known('D_CLIENT_REGISTRY_IS_PROCESS_GLOBAL', '; '.join(reg)[:200])
            else:
                problems += reg
        if problems:
            v.record_violation({'scenario': s_, 'observed': ob}, {'fail': {'status': 'viol', 'cmd': desc, 'detail': '; '.join(problems)[:600]}}, engine='life')
    v.cov['distinct_nontrivial'] = nontriv
    v.cov['engines']['life'] = {'scenarios_enumerated_by_tlc': len(scen), 'scenarios_run': len(chosen), 'connections_probed_after_close': nontriv}
    v.cov['samples'].append(chosen[0])
    v.assumptions = ['Close() is given 2 s (watchdog); an old connection is probed with the natural next command of its activity (GET / rest of the pipeline / EXEC / wait for the blocked reply) for 0.5 s',
                     'each scenario runs in its own child process (a failed listen calls os.Exit(1) in the emulator and is observed as the death of that child)',
                     'the two-instances-alive part (data, CLIENT LIST, CLIENT KILL across instances) is a fixed epilogue of every scenario, not enumerated by the model']
    return v.finish(rule='(Second configuration, Lifecycle2.cfg: two port slots, 2 instances side by side, 2 clients, 5 actions: the scenarios in which a client of the OTHER instance is connected while an instance is stopped; StopIsLocal.) Stopping is Close() or the quit channel given to NewEmulator followed by WaitForTermination(). TLC enumerates every behaviour of Lifecycle.tla with 6 actions over 2 instances on one port and 3 clients in the activities idle / mid-pipeline / inside MULTI / blocked with timeout 0 (3648 scenarios with at least one Close), checks ClosedMeansDisconnected, PortConsistent and NoSharedData on the model; scenarios (those with most clients connected at a Close first, then seeded) are executed against the public API in child processes. Non-trivial = connection probed after a Close.',
                    level='fault_enumeration')


def c17(sc, tier, seed):
    """SCAN family: TLC-generated histories executed on real collections; recorded histories judged by TLC (Trace_Scan)."""
    v = Verdict('C17', tier, seed)
    exe = build_harness(sc)
    num = 24 if tier == 'quick' else 400
    cfg = open(os.path.join(SPEC, 'MC_scan.cfg')).read()
    out, st = run_tlc(sc, 'MC_scan', cfg, workers=1, timeout=900, extra=['-simulate', 'num=%d' % num, '-depth', '3000', '-seed', str(seed)])
    if st['rc'] != 0:
        raise Inconclusive('TLC simulation of MC_scan failed:\n' + '\n'.join(st['tail'][-20:]))
    progs = [op['scanprog'] for op in tlc_json_lines(out) if 'scanprog' in op]
    if not progs:
        raise Inconclusive('MC_scan produced no history')
    v.cov['tlc_runs'].append({'model': 'MC_scan (simulation)', 'histories': len(progs), 'wall_s': st['wall_s']})
    variants = [('set', '', ''), ('hash', '', ''), ('keys', '', ''), ('set', 'e1*', ''), ('hash', '*5', ''), ('keys', 'e2*', ''), ('keys', '', 'string'), ('set', 'e77', '')]
    cases = []
    for i, p in enumerate(progs):
        kind, pat, ty = variants[i % len(variants)]
        cases.append({'id': i, 'prog': p, 'kind': kind, 'match': pat, 'type': ty, 'n': 120, 'delmode': ['del', 'unlink', 'expire'][(i // len(variants)) % 3], 'origin': 'simulation'})
    # (b) every schedule of 6 operations over 3 elements (MC_scan_small, exhaustive), on names that collide in the
    #     16-bucket table so that even this small collection grows; all kinds, all ways of removing a key
    import dictsteer as ds, random as _r
    rnd = _r.Random(seed)
    out_s, st_s = run_tlc(sc, 'MC_scan_small', open(os.path.join(SPEC, 'MC_scan_small.cfg')).read(), workers=4, timeout=900)
    require_tlc_clean(st_s, 'MC_scan_small')
    v.add_tlc('MC_scan_small', st_s)
    small = [op for op in tlc_json_lines(out_s) if 'scanprog' in op]
    pools = ds.make_pools('e', seed)
    pairs = [p for p in pools if p['kind'].startswith('pair')]
    kinds3 = [('set', 'del'), ('hash', 'del'), ('keys', 'del'), ('keys', 'unlink'), ('keys', 'expire')]
    rnd.shuffle(small)
    if tier != 'quick':
        small = [op for op in small for _ in kinds3]        # every schedule on every kind
    for i, op in enumerate(small):
        kind, dm = kinds3[i % len(kinds3)]
        names = pairs[i % len(pairs)]['names'][:3]
        cases.append({'id': len(cases), 'prog': op['scanprog'], 'init': [1, 2, 3] if op.get('init') == 'full' else [], 'kind': kind, 'match': '',
                      'type': 'string' if (kind == 'keys' and i % 2 == 0) else '', 'n': 3, 'names': names, 'delmode': dm, 'origin': 'exhaustive-small'})
    # (c) dict steering: an iteration is in progress while the table grows or shrinks (Dict.tla's state graph)
    from concurrent.futures import ThreadPoolExecutor
    use = []
    for reset in (True, False):
        pp = list(pairs)
        rnd.shuffle(pp)
        use += [(p, reset) for p in pp[:(6 if tier == 'quick' else 16)]]

    def explore(pr):
        pool, reset = pr
        mod, cfg = ds.dict_module(pool, 64, reset_when_empty=reset)
        tag = 'dict-%s-%s' % (pool['kind'], reset)
        d = sc.path('tlc-' + tag)
        if not os.path.isdir(d):
            shutil.copytree(SPEC, d)
        open(os.path.join(d, 'MC_dict.tla'), 'w').write(mod)
        return run_tlc(sc, 'MC_dict', cfg, tag=tag, workers=2, timeout=900)
    with ThreadPoolExecutor(max_workers=NCPU // 2) as ex:
        runs = list(ex.map(explore, use))
    nsteer = 0
    for (pool, reset), (out_d, st_d) in zip(use, runs):
        require_tlc_clean(st_d, 'MC_dict ' + pool['kind'])
        for sch in ds.scan_schedules(list(tlc_json_lines(out_d)), rnd, 1 if tier == 'quick' else 3):
            kind = 'keys' if not reset else ['set', 'hash'][nsteer % 2]
            cases.append({'id': len(cases), 'prog': sch['prog'], 'kind': kind, 'match': '', 'type': '', 'n': len(pool['names']), 'names': pool['names'],
                          'delmode': 'del', 'origin': 'dict-steering ' + sch['label']})
            nsteer += 1
    v.cov['tlc_runs'].append({'model': 'Dict.tla over %d name pools (resize edges -> %d SCAN schedules)' % (len(use), nsteer)})
    cf, rf = sc.path('scan-cases.jsonl'), sc.path('scan-out.jsonl')
    with open(cf, 'w') as f:
        for c in cases:
            f.write(json.dumps(c, separators=(',', ':')) + '\n')
    port = int(os.environ.get('VERIF_PORT', 21000)) + 2000
    p = subprocess.run([exe, 'scan', '-cases', cf, '-out', rf, '-workers', '8', '-port', str(port)], stdout=subprocess.PIPE, stderr=subprocess.PIPE, text=True)
    if p.returncode != 0:
        raise Inconclusive('scan engine failed: ' + p.stderr[-2000:])
    results = sorted((json.loads(l) for l in open(rf)), key=lambda r: r['id'])
    hist = []
    for r in results:
        c = cases[r['id']]
        v.cov['evaluations'] += 1
        if r['status'] == 'ok':
            hist.append((c, r))
        elif r['status'] in ('viol', 'crash'):
            v.record_violation({k: c[k] for k in c if k != 'id'}, {'fail': {'status': r['status'], 'cmd': '%s history %d (%s)' % (c['kind'], c['id'], c.get('origin', '')), 'detail': (r.get('detail') or '')[:500]}}, engine='scan')
        else:
            v.inconclusive.append('scan case %d: %s' % (r['id'], r.get('detail')))
    if hist:
        d = sc.path('tlc-scanjudge')
        shutil.copytree(SPEC, d)
        with open(os.path.join(d, 'scanhist.ndjson'), 'w') as f:
            for c, r in hist:
                f.write(json.dumps({'ev': r['ev']}, separators=(',', ':')) + '\n')
        out2, st2 = run_tlc(sc, 'Trace_Scan', open(os.path.join(SPEC, 'Trace_Scan.cfg')).read(), workers=1, timeout=900, tag='scanjudge')
        txt = re.sub(r'\s+', ' ', open(out2, errors='replace').read())
        m = re.search(r'<< ?"SCANVERDICTS", "(.*?)" ?>>', txt)
        if not m:
            raise Inconclusive('Trace_Scan printed no verdicts:\n' + txt[-1500:])
        verdicts = json.loads(json.loads('"' + m.group(1) + '"'))
        if len(verdicts) != len(hist):
            raise Inconclusive('Trace_Scan judged %d of %d histories' % (len(verdicts), len(hist)))
        v.add_tlc('Trace_Scan', st2)
        its = 0
        for (c, r), vd in zip(hist, verdicts):
            v.cov['traces_validated_against_impl'] += 1
            its += vd['iterations']
            if not vd['ok']:
                v.record_violation(dict({k: c[k] for k in c if k != 'id'}, history=r['ev']),
                                   {'fail': {'status': 'viol', 'cmd': '%s history %d (MATCH %r, %s)' % (c['kind'], c['id'], c['match'], c.get('origin', '')),
                                             'detail': 'a full iteration violates Always <= Returned <= Ever: ' + json.dumps(vd['bad'])[:400]}}, engine='trace_scan')
        v.cov['distinct_nontrivial'] = its
        v.cov['engines']['scan'] = {'histories': len(hist), 'full_iterations_judged': its, 'scan_calls': sum(r.get('calls', 0) for _, r in hist)}
        c0, r0 = hist[0]
        v.cov['samples'].append({'kind': c0['kind'], 'first_events': r0['ev'][:6]})
    v.assumptions = ['element names are e1..e120 (the table passes through several doublings and halvings: growth is forced by the first hash collision at 16 buckets); hash bit patterns are not steered',
                     'MATCH patterns are a prefix, a suffix and an exact name; TYPE string on an all-string keyspace',
                     'termination: an iteration in progress when the history ends must finish within 4n+256 further calls on the then stable collection']
    return v.finish(rule='Three sources of schedules, all executed on real collections and judged by TLC (Trace_Scan): (a) every schedule of 6 additions / removals / single-bucket SCAN calls over 3 elements from the empty and the full collection (MC_scan_small, exhaustive: 1562 schedules incl. the ones that empty the collection mid-iteration), on names that collide in the 16-bucket table, for SSCAN, HSCAN and SCAN with keys removed by DEL, UNLINK or a deadline in the past, with and without TYPE; (b) dict steering: for every grow / shrink edge of the state graph of Dict.tla (the emulator hash table transcribed, real SipHash bits) a store / remove path to it with 1-4 SCAN calls of an iteration placed just before the resize; (c) TLC simulation of ScanHist yields histories of 260 operations (bursts of additions, bursts of removals, SCAN calls with COUNT in {1,2,3,10,1000} continuing the current iteration) over 120 elements; each is executed on a real set (SSCAN), hash (HSCAN) or keyspace (SCAN), with and without MATCH / TYPE; the recorded history (cursor in, cursor out, elements per call) is judged by TLC (Trace_Scan): for every completed full iteration Always <= Returned <= Ever restricted to the filter; plus termination on the stable collection. Non-trivial = completed full iterations judged.')


def block_check(sc, tier, seed, prop, select, rule, quick_n, assumptions=()):
    """Programs with blocking commands (MC_block) replayed step by step with the verif hooks as scheduler gates."""
    import random as _r
    v = Verdict(prop, tier, seed)
    exe = build_harness(sc)
    devs = open_devs()
    out, st = run_tlc(sc, 'MC_block', mc_cfg('MC_block', devs), timeout=1500)
    require_tlc_clean(st, 'MC_block')
    v.add_tlc('MC_block', st)
    cases = [c for c in join_cases(tlc_json_lines(out)) if select(c)]
    if not cases:
        raise Inconclusive('MC_block produced no program for ' + prop)
    total = len(cases)
    # the scenario families of MC_blockprog (longer schedules, written out in the model): all of them, always
    fam = 'ProgsC11' if prop == 'C11' else 'ProgsC12'
    out2, st2 = run_tlc(sc, 'MC_blockprog', mc_cfg('MC_blockprog', devs).replace('BProgs <- ProgsC11', 'BProgs <- ' + fam), tag='blockprog', timeout=900)
    require_tlc_clean(st2, 'MC_blockprog')
    v.add_tlc('MC_blockprog (%s)' % fam, st2)
    scen = join_cases(tlc_json_lines(out2))
    if not scen:
        raise Inconclusive('MC_blockprog produced no scenario for ' + prop)
    rnd = _r.Random(seed)
    rnd.shuffle(cases)
    if tier == 'quick':
        # every (first blocking command, gate) combination first, then seeded
        seen, must, rest = set(), [], []
        for c in cases:
            k = (cmd_text(c['steps'][0]['cmd']), cmd_text(c['steps'][1]['cmd']) if len(c['steps']) > 1 else '')
            (must if k not in seen else rest).append(c)
            seen.add(k)
        cases = must + rest[:max(0, quick_n - len(must))]
    elif len(cases) > 24000:
        cases = cases[:24000]        # thorough: a seeded sample of this size where the tree is larger (about 15 min of replay)
    cases = scen + cases
    for i, c in enumerate(cases):
        c['id'] = i
    cf, rf = sc.path('blk-cases.jsonl'), sc.path('blk-out.jsonl')
    with open(cf, 'w') as f:
        for c in cases:
            f.write(json.dumps(c, separators=(',', ':')) + '\n')
    port = int(os.environ.get('VERIF_PORT', 21000)) + 2600
    p = subprocess.run([exe, 'block', '-cases', cf, '-out', rf, '-workers', str(NCPU), '-port', str(port)], stdout=subprocess.PIPE, stderr=subprocess.PIPE, text=True)
    if p.returncode != 0:
        raise Inconclusive('block engine failed: ' + p.stderr[-2000:])
    results = [json.loads(l) for l in open(rf)]
    if len(results) != len(cases):
        raise Inconclusive('block engine returned %d results for %d cases' % (len(results), len(cases)))
    v.absorb_replay(cases, results, engine='block')
    v.add_samples(cases, 2)
    v.cov['engines']['block']['programs_enumerated_by_tlc'] = total
    v.cov['engines']['block']['scenario_programs'] = len(scen)
    v.assumptions = list(assumptions) + [
        'a step is complete when the issuing connection has its reply or is confirmed blocked (announced by the verif hook at blk.captured, or held at an armed gate); replies to blocked connections are collected for 60-120 ms after every step',
        'a client held at after_wake is woken but not served until released; while it is held the model serves nobody else from that push (single-element pushes wake one waiter)',
        'timeouts: 1 s against a 1200 ms step of the model clock; a step of the model clock is replayed as that much wall-clock time from the moment the step starts; a case in which a timed block ends within 150 ms of its wall-clock timeout although the model clock has not reached it is re-run (up to 3 times), then counted as skipped_timing']
    return v.finish(rule=rule)


def _blk_kinds(c):
    txt = ' '.join(cmd_text(s['cmd']) for s in c['steps'])
    return {'unblock': 'UNBLOCK' in txt, 'kill': 'KILL' in txt, 'close': '@close' in txt, 'tick': any(s['c'] == 0 for s in c['steps']), 'timeout': 'BLPOP a 1' in txt}


def c11(sc, tier, seed):
    return block_check(sc, tier, seed, 'C11', lambda c: not any(_blk_kinds(c).values()),
                       'TLC enumerates (MC_block) all programs of 4 steps over: connection 1 and 2 issuing any of the five blocking commands (one or two keys), pushes of 1-2 elements, competing consumers (LPOP, LMOVE, DEL, RENAME onto the key), with connection 1 optionally held at each schedule point of the block/wake loop (before register, after register, before capture, captured, after wake) and released later; NoStuckWaiter, OncePerStep are checked on the ideal reading; each program is replayed on the real server with the verif hooks as gates: replies, deferred replies of blocked clients, list contents and who is still blocked are compared after every step. (This check takes the programs without unblock / kill / close / timeouts; C12 takes the others.)',
                       1200)


def c12(sc, tier, seed):
    return block_check(sc, tier, seed, 'C12', lambda c: any(_blk_kinds(c).values()),
                       'the programs of MC_block that contain CLIENT UNBLOCK (TIMEOUT / ERROR, aimed at a blocked, a held or a not-blocked client), CLIENT KILL, the blocked client closing its socket, a timeout of 1 s with 1200 ms passing, combined with pushes and consumers and with the target held at each schedule point of the block/wake loop; BlockedIsClean is checked on the ideal reading; replayed as for C11 (reply of CLIENT UNBLOCK, whether the block ended and how, list contents after a push following a close, the connection\'s next command).',
                       1200)


CHECKS = {'C01': c01, 'C11': c11, 'C12': c12, 'C17': c17, 'C20': c20, 'C19': c19, 'C13': c13, 'C02': c02, 'C18': c18, 'C15': c15, 'C08': c08, 'C14': c14, 'C10': c10, 'C09': c09, 'C07': c07, 'C06': c06, 'C03': c03, 'C04': c04, 'C05': c05}


def replay_path(path):
    rec = json.load(open(path))
    sc = Scratch()
    try:
        exe = build_harness(sc)
        case = rec['case']
        engine = rec.get('engine', 'replay')
        if engine in ('walks', 'dict_steering'):
            engine = 'replay'           # (same engine, other source of cases)
        if engine not in ('replay', 'block'):
            print(json.dumps(rec.get('result'), indent=1)[:4000])
            log('this record comes from the %s engine; re-run the property check to reproduce it' % engine)
            return 2
        case['id'] = 0
        if engine == 'block':
            cf, rf = sc.path('one-case.jsonl'), sc.path('one-out.jsonl')
            open(cf, 'w').write(json.dumps(case, separators=(',', ':')) + '\n')
            port = int(os.environ.get('VERIF_PORT', 21000)) + 2600
            pr = subprocess.run([exe, 'block', '-cases', cf, '-out', rf, '-workers', '1', '-port', str(port)], stdout=subprocess.PIPE, stderr=subprocess.PIPE, text=True)
            if pr.returncode != 0:
                raise Inconclusive('block engine failed: ' + pr.stderr[-2000:])
            results = [json.loads(l) for l in open(rf)]
        else:
            results, _ = run_replay(exe, sc, [case], workers=1)
        r = results[0]
        print(json.dumps(r, indent=1))
        if r['status'] in ('viol', 'crash', 'noreply'):
            print('VIOLATION property=%s replay=%s' % (rec['property'], path))
            return 1
        return 0
    except Inconclusive as e:
        log('INCONCLUSIVE:', e)
        return 2
    finally:
        sc.close()
